//! Probe binary for C12: the same executor compiled against adf_bdd under one cargo feature set.
//! Reads one ProbeCase (JSON) per line on stdin, writes one result (JSON) per line on stdout.
#![allow(dead_code)]

#[path = "../../harness/src/bddmodel.rs"]
mod bddmodel;
#[path = "../../harness/src/calls.rs"]
mod calls;
#[path = "../../harness/src/formula.rs"]
mod formula;
#[path = "../../harness/src/gen.rs"]
mod gen;
#[path = "../../harness/src/oracle.rs"]
mod oracle;
#[path = "../../harness/src/probe.rs"]
mod probe;
#[path = "../../harness/src/queries.rs"]
mod queries;
#[path = "../../harness/src/sut.rs"]
mod sut;

use std::io::{BufRead, Write};

fn main() {
    std::panic::set_hook(Box::new(|_| {}));
    let memo_valid = !(cfg!(feature = "adhoccounting") && !cfg!(feature = "adhoccountmodels"));
    let stdin = std::io::stdin();
    let stdout = std::io::stdout();
    for line in stdin.lock().lines() {
        let line = match line {
            Ok(l) => l,
            Err(_) => break,
        };
        if line.trim().is_empty() {
            continue;
        }
        let res = match serde_json::from_str::<probe::ProbeCase>(&line) {
            Err(e) => serde_json::json!({"error": format!("bad case: {e}")}),
            Ok(case) => {
                let r = std::panic::catch_unwind(std::panic::AssertUnwindSafe(|| probe::run(&case, memo_valid)));
                match r {
                    Ok(Ok(t)) => serde_json::json!({"transcript": t}),
                    Ok(Err(e)) => serde_json::json!({"error": e}),
                    Err(p) => {
                        let msg = p
                            .downcast_ref::<String>()
                            .cloned()
                            .or_else(|| p.downcast_ref::<&str>().map(|s| s.to_string()))
                            .unwrap_or_else(|| "<panic>".into());
                        serde_json::json!({"error": format!("panic: {msg}")})
                    }
                }
            }
        };
        let mut o = stdout.lock();
        let _ = writeln!(o, "{}", res);
        let _ = o.flush();
    }
}
