#!/bin/bash
# Builds the C12 probe against /repo/lib under all 12 cargo feature sets (4 lanes in parallel,
# one target dir per lane) and copies the binaries to target/probe/bin/probe-<set>.
set -u
ROOT="$(cd "$(dirname "$0")/.." && pwd)"
export CARGO_NET_OFFLINE=true
export RUSTFLAGS="--cfg adf_obdd_verif"
mkdir -p "$ROOT/target/probe/bin"
SETS=()
for c in none adhoccounting adhoccountmodels; do
  for v in 0 1; do
    for f in 0 1; do
      SETS+=("$c:$v:$f")
    done
  done
done
lane() {
  local lane=$1; shift
  for s in "$@"; do
    IFS=: read c v f <<< "$s"
    feats=""
    [ "$c" = adhoccounting ] && feats="adhoccounting"
    [ "$c" = adhoccountmodels ] && feats="adhoccounting adhoccountmodels"
    [ "$v" = 1 ] && feats="$feats variablelist"
    [ "$f" = 1 ] && feats="$feats frontend"
    name="c-$c.v$v.f$f"
    ( cd "$ROOT/probe" && cargo build --offline --quiet --no-default-features --features "probe $feats" \
        --target-dir "$ROOT/target/probe/lane$lane" 2>"$ROOT/target/probe/build-$name.log" ) || { echo "probe build failed for $name"; tail -20 "$ROOT/target/probe/build-$name.log"; return 1; }
    cp -f "$ROOT/target/probe/lane$lane/debug/probe" "$ROOT/target/probe/bin/probe-$name" || return 1
  done
}
pids=()
lane 0 "${SETS[@]:0:3}" & pids+=($!)
lane 1 "${SETS[@]:3:3}" & pids+=($!)
lane 2 "${SETS[@]:6:3}" & pids+=($!)
lane 3 "${SETS[@]:9:3}" & pids+=($!)
rc=0
for p in "${pids[@]}"; do wait $p || rc=1; done
exit $rc
