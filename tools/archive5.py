#!/usr/bin/env python3
"""round 5: archive the agents' confirmed changes from /tmp/wt/<id>/_seed/<k> as seeded/<id>-<8+k>/ with meta.json"""
import json, os, re, shutil, glob, sys
conf = {}
for l in open('/verif/notes/seed-confirm-round5.log'):
    m = re.match(r'(C\d\d)/(\d) (.*)', l.strip())
    if m: conf[(m.group(1), m.group(2))] = m.group(3)
# detection results: last verdict per (seed, check) over all seed5 logs, in order a, b, c, d...
det = {}
first = {}
for f in sorted(glob.glob('/verif/target/seed5-*.log')):
    for l in open(f, errors='replace'):
        m = re.match(r'\[(C\d\d)/(\d)\] \S+ (C\d\d) (CAUGHT|MISSED|INCONCLUSIVE) (\d+)s', l)
        if m:
            key = (m.group(1), m.group(2))
            first.setdefault(key, (m.group(3), m.group(4)))
            det.setdefault(key, []).append((m.group(3), m.group(4), os.path.basename(f)))
        m = re.match(r'\[(C\d\d)/(\d)\] (property .*)', l)
        if m:
            det.setdefault((m.group(1), m.group(2)), []).append(('msg', m.group(3)[:400], ''))
notes = json.load(open('/verif/notes/round5-notes.json')) if os.path.exists('/verif/notes/round5-notes.json') else {}
for (pid, k), c in sorted(conf.items()):
    src = f'/tmp/wt/{pid}/_seed/{k}'
    if not os.path.isdir(src): continue
    dst = f'/verif/seeded/{pid}-{8+int(k)}'
    os.makedirs(dst, exist_ok=True)
    for f in os.listdir(src):
        p = os.path.join(src, f)
        if os.path.isfile(p) and os.path.getsize(p) < 400_000 and f != 'meta.json':
            shutil.copy(p, dst)
    meta = json.load(open(os.path.join(src, 'meta.json')))
    verdicts = [d for d in det.get((pid, k), []) if d[0] != 'msg']
    msgs = [d[1] for d in det.get((pid, k), []) if d[0] == 'msg']
    caught = [v for v in verdicts if v[1] == 'CAUGHT']
    out = {
        'breaks_property': pid, 'round': 5, 'base_commit': 'b45b9dd',
        'summary': meta.get('summary', ''), 'files': meta.get('files', []),
        'needs_to_manifest': meta.get('needs_to_manifest', ''), 'why_realistic': meta.get('why_realistic', ''),
        'demonstration': meta.get('demo_cmd', f'sh _seed/{k}/demo.sh'),
        'origin': 'independent sub-agent given only the property record, one-line summaries of the eight earlier seeds of that property (to avoid repeats) and a scratch worktree',
        'confirmed_by_me': {'how': "tools/confirm_seeds.sh in the agent's scratch worktree (at b45b9dd): whole workspace suite with the change, demonstration with and without it", 'result': f'{pid}/{k} {c}'},
        'detected_by': {
            'check': caught[-1][0] if caught else (verdicts[-1][0] if verdicts else pid),
            'command': f'git -C /repo apply seeded/{pid}-{8+int(k)}/patch.diff && ./check {caught[-1][0] if caught else pid} quick ; git -C /repo checkout -- .',
            'verdict': 'CAUGHT (VIOLATION reported, exit 1)' if caught else ('MISSED' if verdicts else 'not run'),
            'first_run': f'{first[(pid,k)][1]} by {first[(pid,k)][0]} as the checks stood when the change arrived' if (pid, k) in first else '',
            'message': msgs[-1] if msgs else '',
            'note': notes.get(f'{pid}/{k}', ''),
        },
    }
    json.dump(out, open(os.path.join(dst, 'meta.json'), 'w'), indent=1, ensure_ascii=False)
    print(dst, out['detected_by']['verdict'], '| first:', out['detected_by']['first_run'])
