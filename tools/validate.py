#!/usr/bin/env python3
"""Validate MANIFEST.json and evidence files against the given schemas (needs python3-vt)."""
import json, sys, glob, jsonschema
jsonschema.validate(json.load(open('/verif/MANIFEST.json')), json.load(open('/root/.vp/MANIFEST.schema.json')))
es = json.load(open('/root/.vp/EVIDENCE.schema.json'))
m = json.load(open('/verif/MANIFEST.json'))
bad = 0
for c in m['checks']:
    try:
        jsonschema.validate(json.load(open(c['evidence_file'])), es)
    except Exception as e:
        bad += 1
        print('INVALID', c['evidence_file'], str(e)[:300])
print('manifest ok;', len(m['checks']), 'checks;', bad, 'invalid evidence files')
sys.exit(1 if bad else 0)
