#!/bin/bash
# regression over all archived seeded changes: each must be caught by the quick check named in its meta.json
cd /verif
out=notes/seedall-$(date +%H%M).log
for d in seeded/C*-*; do
  chk=$(python3 -c "import json;print(json.load(open('$d/meta.json'))['detected_by']['check'])")
  r=$(tools/seedtest.sh "$PWD/$d" $chk 2>&1 | head -1)
  echo "$d $r" | tee -a $out
done
echo "caught: $(grep -c CAUGHT $out) / $(ls -d seeded/C*-* | wc -l)" | tee -a $out
