#!/bin/bash
# regression over all archived seeded changes: each must be caught by the quick check named in its meta.json
# usage: tools/seedall.sh [<log to resume>]   (entries already in the log are skipped)
cd /verif
out=${1:-notes/seedall-$(date +%H%M).log}
touch "$out"
for d in seeded/C*-*; do
  grep -q "^$d " "$out" && continue
  chk=$(python3 -c "import json;print(json.load(open('$d/meta.json'))['detected_by']['check'])")
  r=$(tools/seedtest.sh "$PWD/$d" $chk 2>&1 | head -1)
  echo "$d $r" | tee -a $out
done
sed -i '/^caught:/d' "$out"
echo "caught: $(grep -c CAUGHT $out) / $(ls -d seeded/C*-* | wc -l)" | tee -a $out
