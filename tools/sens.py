#!/usr/bin/env python3
"""Sensitivity runs: apply one small mutation to /repo (working tree only), run the quick checks that
are expected to notice, revert. Usage: tools/sens.py [name-substring ...]
Results are appended to /verif/notes/sensitivity.log. /repo is always restored (git checkout)."""
import subprocess, sys, os, time

M = []
def mut(name, file, old, new, checks, count=1):
    M.append(dict(name=name, file=file, old=old, new=new, checks=checks, count=count))

# ---------------------------------------------------------------- C01
mut("grounded-one-round", "lib/src/adf.rs",
    "            if t_vals == old_t_vals {\n                break;\n            }",
    "            if t_vals == old_t_vals || t_vals > 0 {\n                break;\n            }", ["C01"])
mut("restrict-polarity", "lib/src/adf.rs",
    "                            self.bdd.restrict(acc, Var(var), term.is_true())\n                        } else {\n                            acc\n                        }\n                    });\n                if ac.is_truth_value() {",
    "                            self.bdd.restrict(acc, Var(var), !term.is_true())\n                        } else {\n                            acc\n                        }\n                    });\n                if ac.is_truth_value() {", ["C01"])
mut("bio-varlist-shift", "lib/src/adfbiodivine.rs",
    "            .map(|(idx, elem)| (*elem, interpretation[idx].is_true()))\n            .collect::<Vec<(biodivine_lib_bdd::BddVariable, bool)>>()\n    }\n\n    fn var_list_from_term",
    "            .map(|(idx, elem)| (*elem, !interpretation[idx].is_true()))\n            .collect::<Vec<(biodivine_lib_bdd::BddVariable, bool)>>()\n    }\n\n    fn var_list_from_term", ["C01"])
# ---------------------------------------------------------------- C02
mut("compare-inf-ignores-polarity", "lib/src/datatypes/bdd.rs",
    "self.is_truth_value() == other.is_truth_value() && self.is_true() == other.is_true()\n    }\n\n    /// Returns [true] if the information of **other**",
    "self.is_truth_value() == other.is_truth_value()\n    }\n\n    /// Returns [true] if the information of **other**", ["C02", "C03"])
mut("three-valued-skips-last", "lib/src/datatypes/adf.rs",
    "            if *value > 0 {\n                *value -= 1;",
    "            if *value > 1 {\n                *value -= 1;", ["C02", "C20"])
mut("bio-complete-any", "lib/src/adfbiodivine.rs",
    "                    .all(|(idx, ac)| terms[idx].cmp_information(&ac.restrict(&var_list)))",
    "                    .any(|(idx, ac)| terms[idx].cmp_information(&ac.restrict(&var_list)))", ["C02"])
# ---------------------------------------------------------------- C03
mut("reduct-by-true", "lib/src/adf.rs",
    "                            if term.is_truth_value() && !term.is_true() {\n                                self.bdd.restrict(acc, Var(var), false)\n                            } else {\n                                acc\n                            }\n                        });\n                }\n                let grounded_check = self.grounded_internal(&interpr);\n                log::debug!(\n                    \"grounded candidate\\n{:?}\\n{:?}\",\n                    interpretation,\n                    grounded_check\n                );\n                (interpretation, grounded_check)\n            })\n            .filter(|(int, grd)| {\n                int.iter()\n                    .zip(grd.iter())\n                    .all(|(it, gr)| it.compare_inf(gr))\n            })\n            .map(|(int, _grd)| int)\n    }\n\n    /// Computes the stable models.\n    /// Returns a vector",
    "                            if term.is_truth_value() && term.is_true() {\n                                self.bdd.restrict(acc, Var(var), true)\n                            } else {\n                                acc\n                            }\n                        });\n                }\n                let grounded_check = self.grounded_internal(&interpr);\n                log::debug!(\n                    \"grounded candidate\\n{:?}\\n{:?}\",\n                    interpretation,\n                    grounded_check\n                );\n                (interpretation, grounded_check)\n            })\n            .filter(|(int, grd)| {\n                int.iter()\n                    .zip(grd.iter())\n                    .all(|(it, gr)| it.compare_inf(gr))\n            })\n            .map(|(int, _grd)| int)\n    }\n\n    /// Computes the stable models.\n    /// Returns a vector", ["C03"])
mut("rewrite-and-for-iff", "lib/src/adfbiodivine.rs",
    "                acc.and(\n                    &formula.iff(",
    "                acc.and(\n                    &formula.and(", ["C03"])
mut("prefilter-sentinel-passes", "lib/src/adf.rs",
    "                    (vec![Term::BOT], vec![Term::TOP])",
    "                    (vec![Term::BOT], vec![Term::BOT])", ["C03"])
# ---------------------------------------------------------------- C04
mut("revert-D1", "lib/src/adf.rs",
    "                    Ok::<(), ()>(())\n                });",
    "                    res\n                });", ["C04"])
mut("c04-drop-opposite-branch", "lib/src/adf.rs",
    "            if new_int[idx].no_inf_inconsistency(&upd_int[idx]) {\n                upd_int[idx] = if check_models { Term::BOT } else { Term::TOP };",
    "            if false && new_int[idx].no_inf_inconsistency(&upd_int[idx]) {\n                upd_int[idx] = if check_models { Term::BOT } else { Term::TOP };", ["C04"])
mut("c04-swap-neg-pos", "lib/src/adf.rs",
    "                            new_int[var.value()] = Term::BOT;\n                            Ok(())",
    "                            new_int[var.value()] = Term::TOP;\n                            Ok(())", ["C04"])
# ---------------------------------------------------------------- C05
mut("revert-D2", "lib/src/adf/heuristics.rs",
    "Var::from(possible[position].0)", "Var::from(position)", ["C05"])
mut("ng-never-learn-choice", "lib/src/adf.rs",
    "                    ng_store.add_ng(ng);\n",
    "                    if !choice { ng_store.add_ng(ng); }\n", ["C05"])
mut("ng-keep-sender-clone", "lib/src/adf.rs",
    "        let grounded = self.grounded();\n        self.nogood_internal(\n            &grounded,\n            heuristic.get_heuristic(),\n            Self::stability_check,\n            sender,\n        );",
    "        let grounded = self.grounded();\n        std::mem::forget(sender.clone());\n        self.nogood_internal(\n            &grounded,\n            heuristic.get_heuristic(),\n            Self::stability_check,\n            sender,\n        );", ["C05"])
mut("ng-skip-ac-consistency", "lib/src/adf.rs",
    "                    cur.is_truth_value() && ac.is_truth_value() && cur.is_true() != ac.is_true()\n                })",
    "                    cur.is_truth_value() && ac.is_truth_value() && cur.is_true() != ac.is_true() && false\n                })", ["C05"])
# ---------------------------------------------------------------- C06 / C07
mut("node-no-reduce", "lib/src/obdd.rs",
    "        if lo == hi {\n            lo\n        } else {\n            let node = BddNode::new(var, lo, hi);",
    "        if lo == hi && lo.value() < 2 {\n            lo\n        } else {\n            let node = BddNode::new(var, lo, hi);", ["C06"])
mut("node-no-unique-lookup", "lib/src/obdd.rs",
    "            match self.cache.get(&node) {\n                Some(t) => *t,",
    "            match self.cache.get(&node).filter(|t| t.value() % 7 != 3) {\n                Some(t) => *t,", ["C06"])
mut("restrict-cache-key-no-val", "lib/src/obdd.rs",
    "        if let Some(result) = self.restrict_cache.get(&(tree, var, val)) {",
    "        if let Some(result) = self.restrict_cache.get(&(tree, var, true)) {", ["C07"])
mut("imp-args-swapped", "lib/src/obdd.rs",
    "        self.if_then_else(term_a, term_b, Term::TOP)",
    "        self.if_then_else(term_b, term_a, Term::TOP)", ["C07"])
mut("iff-from-xor", "lib/src/obdd.rs",
    "        let not_b = self.not(term_b);\n        self.if_then_else(term_a, term_b, not_b)",
    "        let not_b = self.not(term_b);\n        self.if_then_else(term_a, not_b, term_b)", ["C07"])
mut("ite-cache-collision", "lib/src/obdd.rs",
    "            self.ite_cache.insert((i, t, e), result);",
    "            self.ite_cache.insert((i, t, if e.value() > 9 { Term(9) } else { e }), result);", ["C07"])
mut("from-nodes-raw-push", "lib/src/obdd.rs",
    "        for node in nodes {\n            bdd.node(node.var(), node.lo(), node.hi());\n        }",
    "        for node in nodes {\n            if node.var().value() == 1 { bdd.nodes.push(node); } else {\n            bdd.node(node.var(), node.lo(), node.hi()); }\n        }", ["C06", "C14"])

# ---------------------------------------------------------------- C08
mut("parser-swap-imp-iff", "lib/src/parser.rs",
    "            .map(|(input, (f1, f2))| (input, Formula::Imp(Box::new(f1), Box::new(f2))))",
    "            .map(|(input, (f1, f2))| (input, Formula::Iff(Box::new(f1), Box::new(f2))))", ["C08"])
mut("parser-atomic-before-binary", "lib/src/parser.rs",
    "            AdfParser::constant,\n            AdfParser::binary_op,\n            AdfParser::unary_op,\n            AdfParser::atomic_term,",
    "            AdfParser::constant,\n            AdfParser::atomic_term,\n            AdfParser::binary_op,\n            AdfParser::unary_op,", ["C08"])
mut("parser-no-all-consuming", "lib/src/parser.rs",
    "                all_consuming(many1(alt((self.parse_statement(), self.parse_ac())))),",
    "                many1(alt((self.parse_statement(), self.parse_ac()))),", ["C08"])
mut("parser-optional-dot", "lib/src/parser.rs",
    "                terminated(AdfParser::statement, terminated(tag(\".\"), multispace0))(input)?;",
    "                terminated(AdfParser::statement, terminated(nom::combinator::opt(tag(\".\")), multispace0))(input)?;", ["C08"])
# ---------------------------------------------------------------- C09
mut("frombio-swap-lo-hi", "lib/src/adf.rs",
    "                                term_vec[node_elements[1]\n                                    .parse::<usize>()\n                                    .expect(\"Termpos should be a valid number\")],\n                                term_vec[node_elements[2]",
    "                                term_vec[node_elements[2]\n                                    .parse::<usize>()\n                                    .expect(\"Termpos should be a valid number\")],\n                                term_vec[node_elements[1]", ["C09"])
mut("compile-xor-as-iff", "lib/src/adf.rs",
    "                self.bdd.xor(t1, t2)", "                self.bdd.iff(t1, t2)", ["C09"])
# ---------------------------------------------------------------- C10
mut("varsort-no-reindex", "lib/src/parser.rs",
    "            .sort_unstable();\n        self.regenerate_indizes();",
    "            .sort_unstable();", ["C10"])
mut("formula-order-by-insertion", "lib/src/parser.rs",
    "            .map(|name| {\n                *self\n                    .dict",
    "            .enumerate()\n            .map(|(pos, name)| {\n                if pos % 2 == 1 { return pos; }\n                *self\n                    .dict", ["C10"])
# ---------------------------------------------------------------- C11
mut("stable-mutates-ac", "lib/src/adf.rs",
    "        let grounded = self.grounded();\n        TwoValuedInterpretationsIterator::new(&grounded)\n            .map(|interpretation| {\n                let mut interpr = self.ac.clone();",
    "        let grounded = self.grounded();\n        self.ac = grounded.clone();\n        TwoValuedInterpretationsIterator::new(&grounded)\n            .map(|interpretation| {\n                let mut interpr = self.ac.clone();", ["C11"])
mut("seed-ignored", "lib/src/adf.rs",
    "        self.rng = RefCell::new(StdRng::from_seed(seed))",
    "        let _ = seed;\n        self.rng = Adf::default_rng()", ["C11"])
# ---------------------------------------------------------------- C12 / C13
mut("revert-D3", "lib/src/obdd.rs",
    "                    1 + self\n                        .max_depth(self.nodes[term.0].hi())",
    "                    self\n                        .max_depth(self.nodes[term.0].hi())", ["C12"])
mut("novarlist-restrict-early", "lib/src/obdd.rs",
    "            if node.var() > var || node.var() >= Var::BOT {\n                tree",
    "            if node.var() >= var || node.var() >= Var::BOT {\n                tree", ["C12", "C07"])
mut("revert-D4", "lib/src/datatypes/bdd.rs",
    "        self.models >= self.cmodels\n", "        self.models >= self.minimum()\n", ["C13"])
mut("paths-multiplied", "lib/src/obdd.rs",
    "                                    lo_paths.cmodels + hi_paths.cmodels,\n                                    lo_paths.models + hi_paths.models,\n                                )\n                                    .into(),\n                                std::cmp::max(lodepth, hidepth) + 1,\n                            ),\n                        );",
    "                                    lo_paths.cmodels + hi_paths.cmodels,\n                                    lo_paths.models * hi_paths.models.max(1),\n                                )\n                                    .into(),\n                                std::cmp::max(lodepth, hidepth) + 1,\n                            ),\n                        );", ["C13"])
mut("cubes-ignore-goalvar", "lib/src/obdd.rs",
    "        if (goal_var != var) || !goal {", "        if true {", ["C13", "C04"])
# ---------------------------------------------------------------- C14
mut("fix-import-no-vardeps", "lib/src/obdd.rs",
    "    pub fn fix_import(&mut self) {\n        self.generate_var_dependencies();",
    "    pub fn fix_import(&mut self) {", ["C14"])
mut("export-no-exists-guard", "bin/src/main.rs",
    "                    if export.exists() {", "                    if false && export.exists() {", ["C14"])
# ---------------------------------------------------------------- C15
mut("revert-D5", "bin/src/main.rs",
    ".map(|v| <adf_bdd::adf::heuristics::Heuristic as std::str::FromStr>::from_str(&v).expect(\"only valid variant names are accepted by the parser\")))]",
    ")]", ["C15"])
mut("print-F-for-true", "lib/src/datatypes/adf.rs",
    "                        write!(f, \"T(\").expect(\"writing Interpretation failed!\");",
    "                        write!(f, \"F(\").expect(\"writing Interpretation failed!\");", ["C15", "C10"])
mut("biodivine-arm-drops-com", "bin/src/main.rs",
    "                if self.complete {\n                    for model in adf.complete() {\n                        print!(\"{}\", adf.print_interpretation(&model));",
    "                if self.complete && !self.grounded {\n                    for model in adf.complete() {\n                        print!(\"{}\", adf.print_interpretation(&model));", ["C15"])
mut("parse-error-returns", "bin/src/main.rs",
    "                        log::error!(\"Error during parsing:\\n{} \\n\\n cannot continue, panic!\", e);\n                        panic!(\"Parsing failed, see log for further details\")\n                    }\n                }\n                if self.sort_lex {",
    "                        log::error!(\"Error during parsing:\\n{} \\n\\n cannot continue, panic!\", e);\n                        return;\n                    }\n                }\n                if self.sort_lex {", ["C15", "C08"])
# ---------------------------------------------------------------- C16
mut("graph-omits-some-hi-edges", "server/src/double_labeled_graph.rs",
    "            .map(|(i, &node)| (i, node.hi().value()))\n",
    "            .map(|(i, &node)| (i, node.hi().value()))\n            .filter(|(_, v)| *v != 1)\n", ["C16"])
mut("ac-strings-off-by-one", "server/src/adf.rs",
    "                    ac: ac.iter().map(|t| t.0.to_string()).collect(),",
    "                    ac: ac.iter().map(|t| (t.0 + (t.0 > 1) as usize).to_string()).collect(),", ["C16"])
mut("parse-error-as-empty", "server/src/adf.rs",
    "            Ok(Ok(Err(err))) => (\n                SimplifiedAdfOpt::Error(err.to_string()),\n                AcsAndGraphsOpt::Error(err.to_string()),\n            ),",
    "            Ok(Ok(Err(err))) => (\n                SimplifiedAdfOpt::Error(err.to_string()),\n                AcsAndGraphsOpt::Some(vec![]),\n            ),", ["C16"])
mut("revert-K3-guard", "server/src/adf.rs",
    "        if let Ok(mut currently_running) = self.app_state.currently_running.lock() {\n            currently_running.remove(&self.running_info);\n        }",
    "", ["C16"])
# ---------------------------------------------------------------- C17
mut("get-without-username", "server/src/adf.rs",
    "    let adf_problem = match adf_coll\n        .find_one(doc! { \"name\": &problem_name, \"username\": &username }, None)\n        .await\n    {\n        Err(err) => return HttpResponse::InternalServerError().body(err.to_string()),\n        Ok(None) => {\n            return HttpResponse::NotFound()\n                .body(format!(\"ADF problem with name {problem_name} not found.\"))\n        }\n        Ok(Some(prob)) => prob,\n    };\n\n    HttpResponse::Ok().json(",
    "    let adf_problem = match adf_coll\n        .find_one(doc! { \"name\": &problem_name }, None)\n        .await\n    {\n        Err(err) => return HttpResponse::InternalServerError().body(err.to_string()),\n        Ok(None) => {\n            return HttpResponse::NotFound()\n                .body(format!(\"ADF problem with name {problem_name} not found.\"))\n        }\n        Ok(Some(prob)) => prob,\n    };\n\n    HttpResponse::Ok().json(", ["C17"])
mut("delete-without-username", "server/src/adf.rs",
    "        .delete_one(doc! { \"name\": &problem_name, \"username\": &username }, None)",
    "        .delete_one(doc! { \"name\": &problem_name }, None)", ["C17"])
mut("store-plaintext-on-update", "server/src/user.rs",
    "                user.password = hashed_pw;\n\n                let result = user_coll\n                    .replace_one(",
    "                let _ = hashed_pw;\n\n                let result = user_coll\n                    .replace_one(", ["C17"])
mut("account-delete-keeps-problems", "server/src/user.rs",
    "                    .delete_many(doc! { \"username\": &username }, None)",
    "                    .delete_many(doc! { \"username\": &username, \"name\": \"\" }, None)", ["C17"])
mut("login-without-verify", "server/src/user.rs",
    "            if pw_valid {", "            if pw_valid || pw.len() > 3 {", ["C17"])
mut("fixed-salt", "server/src/user.rs",
    "    let salt = SaltString::generate(&mut OsRng);\n    let hashed_pw = Argon2::default()",
    "    let salt = SaltString::from_b64(\"c29tZXNhbHRzb21lc2FsdA\").unwrap();\n    let hashed_pw = Argon2::default()", ["C17"])
# ---------------------------------------------------------------- C18
mut("revert-D6", "lib/src/nogoods.rs",
    "                if ng.is_contradicting(acc) {", "                if ng.is_violating(acc) {", ["C18"])
mut("conclude-own-polarity", "lib/src/nogoods.rs",
    "            Some((pos as usize, !self.value.contains(pos)))\n        } else {",
    "            Some((pos as usize, self.value.contains(pos)))\n        } else {", ["C18", "C05"])
mut("bucket-filter-strict", "lib/src/nogoods.rs",
    "            .filter(|(len, _vec)| *len <= nogood.len())\n            .filter_map(",
    "            .filter(|(len, _vec)| *len < nogood.len())\n            .filter_map(", ["C18"])
# ---------------------------------------------------------------- C19
mut("send-on-unique-hit", "lib/src/obdd.rs",
    "            match self.cache.get(&node) {\n                Some(t) => *t,",
    "            match self.cache.get(&node) {\n                Some(t) => {\n                    #[cfg(feature = \"frontend\")]\n                    if let Some(send) = &self.sender { if t.value() % 5 == 4 { let _ = send.send(node); } }\n                    *t\n                }", ["C19"])
mut("relay-does-not-forward", "lib/src/obdd/frontend.rs",
    "                        if let Some(send) = &self.sender {\n                            match send.send(node) {",
    "                        if let Some(send) = self.sender.as_ref().filter(|_| self.nodes.len() % 4 != 0) {\n                            match send.send(node) {", ["C19"])
mut("recv-stops-one-late", "lib/src/obdd/frontend.rs",
    "                        if new_term == term {", "                        if new_term.value() == term.value() + 1 {", ["C19"])
# ---------------------------------------------------------------- C20
mut("two-valued-find-from-1", "lib/src/datatypes/adf.rs",
    "                    .enumerate()\n                    .find(|(_, &idx)| current[idx] == Term::BOT)",
    "                    .enumerate()\n                    .skip(if self.indexes.len() > 3 { 1 } else { 0 })\n                    .find(|(_, &idx)| current[idx] == Term::BOT)", ["C20"])
mut("three-valued-reset-to-1", "lib/src/datatypes/adf.rs",
    "            for value in vector[0..cur].iter_mut() {\n                *value = 2;",
    "            for value in vector[0..cur].iter_mut() {\n                *value = if cur > 2 { 1 } else { 2 };", ["C20", "C02"])


def sh(cmd, **kw):
    return subprocess.run(cmd, shell=True, text=True, capture_output=True, **kw)

def main():
    sel = sys.argv[1:]
    os.makedirs("/verif/notes", exist_ok=True)
    if sh("git -C /repo status --porcelain --untracked-files=no").stdout.strip():
        print("refusing: /repo working tree is dirty"); sys.exit(2)
    log = open("/verif/notes/sensitivity.log", "a")
    for m in M:
        if sel and not any(s in m["name"] for s in sel):
            continue
        path = "/repo/" + m["file"]
        src = open(path).read()
        if src.count(m["old"]) != m["count"]:
            print(f"{m['name']}: pattern occurs {src.count(m['old'])}x, expected {m['count']} -- SKIPPED")
            continue
        open(path, "w").write(src.replace(m["old"], m["new"]))
        sh("rm -rf /verif/target/evbak-sens; mkdir -p /verif/target/evbak-sens; cp -a /verif/evidence/. /verif/target/evbak-sens/")
        try:
            for c in m["checks"]:
                t0 = time.time()
                r = sh(f"cd /verif && ./check {c} quick", timeout=3600)
                viol = [l for l in r.stdout.splitlines() if l.startswith("VIOLATION")]
                verdict = "CAUGHT" if r.returncode == 1 and viol else ("BUILD/INCONCLUSIVE" if r.returncode == 2 else "MISSED")
                line = f"{m['name']:32s} {c} {verdict:8s} {time.time()-t0:6.1f}s"
                print(line, flush=True)
                log.write(time.strftime("%F %T ") + line + "\n")
                if verdict != "CAUGHT":
                    print(r.stdout[-600:])
        finally:
            sh("git -C /repo checkout -- .")
            sh("cp -a /verif/target/evbak-sens/. /verif/evidence/")
    log.close()

if __name__ == "__main__":
    main()
