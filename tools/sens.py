#!/usr/bin/env python3
"""Sensitivity runs: apply one small mutation to /repo (working tree only), run the quick checks that
are expected to notice, revert. Usage: tools/sens.py [name-substring ...]
Results are appended to /verif/notes/sensitivity.log. /repo is always restored (git checkout)."""
import subprocess, sys, os, time

M = []
def mut(name, file, old, new, checks, count=1):
    M.append(dict(name=name, file=file, old=old, new=new, checks=checks, count=count))

# ---------------------------------------------------------------- C01
mut("grounded-one-round", "lib/src/adf.rs",
    "            if t_vals == old_t_vals {\n                break;\n            }",
    "            if t_vals == old_t_vals || t_vals > 0 {\n                break;\n            }", ["C01"])
mut("restrict-polarity", "lib/src/adf.rs",
    "                            self.bdd.restrict(acc, Var(var), term.is_true())\n                        } else {\n                            acc\n                        }\n                    });\n                if ac.is_truth_value() {",
    "                            self.bdd.restrict(acc, Var(var), !term.is_true())\n                        } else {\n                            acc\n                        }\n                    });\n                if ac.is_truth_value() {", ["C01"])
mut("bio-varlist-shift", "lib/src/adfbiodivine.rs",
    "            .map(|(idx, elem)| (*elem, interpretation[idx].is_true()))\n            .collect::<Vec<(biodivine_lib_bdd::BddVariable, bool)>>()\n    }\n\n    fn var_list_from_term",
    "            .map(|(idx, elem)| (*elem, !interpretation[idx].is_true()))\n            .collect::<Vec<(biodivine_lib_bdd::BddVariable, bool)>>()\n    }\n\n    fn var_list_from_term", ["C01"])
# ---------------------------------------------------------------- C02
mut("compare-inf-ignores-polarity", "lib/src/datatypes/bdd.rs",
    "self.is_truth_value() == other.is_truth_value() && self.is_true() == other.is_true()\n    }\n\n    /// Returns [true] if the information of **other**",
    "self.is_truth_value() == other.is_truth_value()\n    }\n\n    /// Returns [true] if the information of **other**", ["C02", "C03"])
mut("three-valued-skips-last", "lib/src/datatypes/adf.rs",
    "            if *value > 0 {\n                *value -= 1;",
    "            if *value > 1 {\n                *value -= 1;", ["C02", "C20"])
mut("bio-complete-any", "lib/src/adfbiodivine.rs",
    "                    .all(|(idx, ac)| terms[idx].cmp_information(&ac.restrict(&var_list)))",
    "                    .any(|(idx, ac)| terms[idx].cmp_information(&ac.restrict(&var_list)))", ["C02"])
# ---------------------------------------------------------------- C03
mut("reduct-by-true", "lib/src/adf.rs",
    "                            if term.is_truth_value() && !term.is_true() {\n                                self.bdd.restrict(acc, Var(var), false)\n                            } else {\n                                acc\n                            }\n                        });\n                }\n                let grounded_check = self.grounded_internal(&interpr);\n                log::debug!(\n                    \"grounded candidate\\n{:?}\\n{:?}\",\n                    interpretation,\n                    grounded_check\n                );\n                (interpretation, grounded_check)\n            })\n            .filter(|(int, grd)| {\n                int.iter()\n                    .zip(grd.iter())\n                    .all(|(it, gr)| it.compare_inf(gr))\n            })\n            .map(|(int, _grd)| int)\n    }\n\n    /// Computes the stable models.\n    /// Returns a vector",
    "                            if term.is_truth_value() && term.is_true() {\n                                self.bdd.restrict(acc, Var(var), true)\n                            } else {\n                                acc\n                            }\n                        });\n                }\n                let grounded_check = self.grounded_internal(&interpr);\n                log::debug!(\n                    \"grounded candidate\\n{:?}\\n{:?}\",\n                    interpretation,\n                    grounded_check\n                );\n                (interpretation, grounded_check)\n            })\n            .filter(|(int, grd)| {\n                int.iter()\n                    .zip(grd.iter())\n                    .all(|(it, gr)| it.compare_inf(gr))\n            })\n            .map(|(int, _grd)| int)\n    }\n\n    /// Computes the stable models.\n    /// Returns a vector", ["C03"])
mut("rewrite-imp-for-iff", "lib/src/adfbiodivine.rs",
    "                acc.and(\n                    &formula.iff(",
    "                acc.and(\n                    &formula.imp(", ["C03"])
mut("prefilter-any", "lib/src/adf.rs",
    "                if interpretation.iter().enumerate().all(|(ac_idx, it)| {",
    "                if interpretation.iter().enumerate().any(|(ac_idx, it)| {", ["C03"])
# ---------------------------------------------------------------- C04
mut("revert-D1", "lib/src/adf.rs",
    "                    Ok::<(), ()>(())\n                });",
    "                    res\n                });", ["C04"])
mut("c04-drop-opposite-branch", "lib/src/adf.rs",
    "            if new_int[idx].no_inf_inconsistency(&upd_int[idx]) {\n                upd_int[idx] = if check_models { Term::BOT } else { Term::TOP };",
    "            if false && new_int[idx].no_inf_inconsistency(&upd_int[idx]) {\n                upd_int[idx] = if check_models { Term::BOT } else { Term::TOP };", ["C04"])
mut("c04-swap-neg-pos", "lib/src/adf.rs",
    "                            new_int[var.value()] = Term::BOT;\n                            Ok(())",
    "                            new_int[var.value()] = Term::TOP;\n                            Ok(())", ["C04"])
# ---------------------------------------------------------------- C05
mut("revert-D2", "lib/src/adf/heuristics.rs",
    "Var::from(possible[position].0)", "Var::from(position)", ["C05"])
mut("ng-no-model-nogood", "lib/src/adf.rs",
    "                    // stable model found\n                    stack.push((false, cur_interpr.as_slice().into()));",
    "                    // stable model found", ["C05"])
mut("ng-keep-sender-clone", "lib/src/adf.rs",
    "        let grounded = self.grounded();\n        self.nogood_internal(\n            &grounded,\n            heuristic.get_heuristic(),\n            Self::stability_check,\n            sender,\n        );",
    "        let grounded = self.grounded();\n        std::mem::forget(sender.clone());\n        self.nogood_internal(\n            &grounded,\n            heuristic.get_heuristic(),\n            Self::stability_check,\n            sender,\n        );", ["C05"])
mut("ng-skip-ac-consistency", "lib/src/adf.rs",
    "                    cur.is_truth_value() && ac.is_truth_value() && cur.is_true() != ac.is_true()\n                })",
    "                    cur.is_truth_value() && ac.is_truth_value() && cur.is_true() != ac.is_true() && false\n                })", ["C05"])
# ---------------------------------------------------------------- C06 / C07
mut("node-no-reduce", "lib/src/obdd.rs",
    "        if lo == hi {\n            lo\n        } else {\n            let node = BddNode::new(var, lo, hi);",
    "        if lo == hi && lo.value() < 2 {\n            lo\n        } else {\n            let node = BddNode::new(var, lo, hi);", ["C06"])
mut("node-no-unique-lookup", "lib/src/obdd.rs",
    "            match self.cache.get(&node) {\n                Some(t) => *t,",
    "            match self.cache.get(&node).filter(|t| t.value() % 7 != 3) {\n                Some(t) => *t,", ["C06"])
mut("restrict-cache-key-no-val", "lib/src/obdd.rs",
    "        if let Some(result) = self.restrict_cache.get(&(tree, var, val)) {",
    "        if let Some(result) = self.restrict_cache.get(&(tree, var, true)) {", ["C07"])
mut("imp-args-swapped", "lib/src/obdd.rs",
    "        self.if_then_else(term_a, term_b, Term::TOP)",
    "        self.if_then_else(term_b, term_a, Term::TOP)", ["C07"])
mut("iff-from-xor", "lib/src/obdd.rs",
    "        let not_b = self.not(term_b);\n        self.if_then_else(term_a, term_b, not_b)",
    "        let not_b = self.not(term_b);\n        self.if_then_else(term_a, not_b, term_b)", ["C07"])
mut("ite-cache-collision", "lib/src/obdd.rs",
    "            self.ite_cache.insert((i, t, e), result);",
    "            self.ite_cache.insert((i, t, if e.value() > 9 { Term(9) } else { e }), result);", ["C07"])
mut("from-nodes-raw-push", "lib/src/obdd.rs",
    "        for node in nodes {\n            bdd.node(node.var(), node.lo(), node.hi());\n        }",
    "        for node in nodes {\n            if node.var().value() == 1 { bdd.nodes.push(node); } else {\n            bdd.node(node.var(), node.lo(), node.hi()); }\n        }", ["C06", "C14"])


def sh(cmd, **kw):
    return subprocess.run(cmd, shell=True, text=True, capture_output=True, **kw)

def main():
    sel = sys.argv[1:]
    os.makedirs("/verif/notes", exist_ok=True)
    if sh("git -C /repo status --porcelain --untracked-files=no").stdout.strip():
        print("refusing: /repo working tree is dirty"); sys.exit(2)
    log = open("/verif/notes/sensitivity.log", "a")
    for m in M:
        if sel and not any(s in m["name"] for s in sel):
            continue
        path = "/repo/" + m["file"]
        src = open(path).read()
        if src.count(m["old"]) != m["count"]:
            print(f"{m['name']}: pattern occurs {src.count(m['old'])}x, expected {m['count']} -- SKIPPED")
            continue
        open(path, "w").write(src.replace(m["old"], m["new"]))
        try:
            for c in m["checks"]:
                t0 = time.time()
                r = sh(f"cd /verif && ./check {c} quick", timeout=3600)
                viol = [l for l in r.stdout.splitlines() if l.startswith("VIOLATION")]
                verdict = "CAUGHT" if r.returncode == 1 and viol else ("BUILD/INCONCLUSIVE" if r.returncode == 2 else "MISSED")
                line = f"{m['name']:32s} {c} {verdict:8s} {time.time()-t0:6.1f}s"
                print(line, flush=True)
                log.write(time.strftime("%F %T ") + line + "\n")
                if verdict != "CAUGHT":
                    print(r.stdout[-600:])
        finally:
            sh("git -C /repo checkout -- .")
    log.close()

if __name__ == "__main__":
    main()
