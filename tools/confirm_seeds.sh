#!/bin/bash
# Confirms every sub-agent seed in its scratch worktree: with the change the existing suite passes and
# the demonstration fails; without the change the demonstration passes. Results: /verif/notes/seed-confirm.log
# usage: tools/confirm_seeds.sh C01 C02 ...
export CARGO_NET_OFFLINE=true
WTBASE=${WTBASE:-/tmp/wt}
SHARED=$WTBASE/shared-target
mkdir -p $SHARED
LOG=${LOG:-/verif/notes/seed-confirm.log}
for id in "$@"; do
  WT=$WTBASE/$id
  [ -d "$WT" ] || continue
  rm -rf "$WT/target"; ln -sfn $SHARED "$WT/target"
  for k in 1 2; do
    S="$WT/_seed/$k"
    [ -f "$S/patch.diff" ] || continue
    cd "$WT" || continue
    git checkout -q -- . ; git clean -fdq -- lib bin server
    git apply "$S/patch.diff" || { echo "$id/$k APPLY-FAILED" >> $LOG; continue; }
    suite=$(cargo test --workspace --no-fail-fast --offline 2>&1)
    if echo "$suite" | grep -q "test result: FAILED\|error\[" ; then s1=SUITE-FAILS; else s1=suite-ok; fi
    npass=$(echo "$suite" | grep "^test result: ok" | sed 's/.*ok\. \([0-9]*\) passed.*/\1/' | paste -sd+ | bc)
    cmd=$(python3 -c "import json;print(json.load(open('$S/meta.json')).get('demo_cmd',''))")
    out=$(timeout 1500 bash -c "$cmd" 2>&1); rc=$?
    if [ $rc -ne 0 ] || echo "$out" | grep -q "test result: FAILED\|FAILED\|panicked"; then d1=demo-fails-with-change; else d1=DEMO-PASSES-WITH-CHANGE; fi
    git checkout -q -- .
    out=$(timeout 1500 bash -c "$cmd" 2>&1); rc=$?
    if [ $rc -ne 0 ] || echo "$out" | grep -q "test result: FAILED\|FAILED\|panicked"; then d2=DEMO-FAILS-WITHOUT-CHANGE; else d2=demo-passes-without-change; fi
    git checkout -q -- . ; git clean -fdq -- lib bin server
    echo "$id/$k $s1 (passed=$npass) $d1 $d2" >> $LOG
  done
  rm -f "$WT/target"
done
echo "DONE $*" >> $LOG
