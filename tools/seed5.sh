#!/bin/bash
# round 5: run the property's own quick check against the agents' changes (from their scratch worktrees)
# usage: tools/seed5.sh C06/1 C06/2 ...   (optionally CHECKS="C06 C19")
cd /verif
for s in "$@"; do
  id=${s%/*}; k=${s#*/}
  d=/tmp/wt/$id/_seed/$k
  [ -f $d/patch.diff ] || { echo "$s no patch"; continue; }
  tools/seedtest.sh $d ${CHECKS:-$id} 2>&1 | sed "s|^|[$s] |"
done
