#!/bin/bash
# run every claimed check's quick command on the current tree; print one line each
cd /verif
fail=0
for id in $(python3 -c "import json;print(' '.join(c['property_id'] for c in json.load(open('MANIFEST.json'))['checks']))"); do
  s=$(date +%s.%N)
  out=$(./check $id ${1:-quick} 2>&1); rc=$?
  e=$(date +%s.%N)
  printf "%s rc=%d %.1fs %s\n" $id $rc $(echo "$e - $s" | bc) "$(echo "$out" | grep -E "VIOLATION|KNOWN-FINDING|INCONCLUSIVE" | head -3 | tr '\n' ' ')"
  [ $rc -ne 0 ] && fail=1
done
exit $fail
