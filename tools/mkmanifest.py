#!/usr/bin/env python3
"""Regenerates /verif/MANIFEST.json from the table below (single source of truth)."""
import json, os, subprocess

ROOT = os.path.dirname(os.path.dirname(os.path.abspath(__file__)))

# additions of round 5 (appended to the level text)
ROUND5 = {
    "C01": " Round 5: ADFs of 120..530 statements; objects whose diagram store reports to a listener that has hung up.",
    "C02": " Round 5: lazy enumeration with 41..130 undecided statements (first ten models: grounded first, fixpoints, distinct); hung-up listeners.",
    "C03": " Round 5: 62..140 statements with a small cyclic core anywhere in the order (exact oracle: cycle statements enumerated, the rest evaluated in topological order); hung-up listeners.",
    "C04": " Round 5: 62..140 statements with a small cyclic core; hung-up listeners.",
    "C05": " Round 5: 58..140 statements (cyclic core, long chains, parity over all statements); hung-up listeners.",
    "C08": " Round 5: valid text after up to 2 100 rejected texts on the same thread; mutants full of multi-byte characters with a logger active; nesting 500..900 through the CLI.",
    "C09": " Round 5: 126..520 statements; node tables beyond 2^15 / 2^16 / 2^17 entries during compilation.",
    "C10": " Round 5: input files beyond 64 / 128 KiB with a multi-byte character across that offset; labels with numbers of 18..30 digits (open finding K7).",
    "C11": " Round 5: call histories on one biodivine-backed object; listeners attached to the diagram store that stay or hang up.",
    "C12": " Round 5: deep diagrams (20..100 variables, counts that saturate) in all 12 builds.",
    "C13": " Round 5: depths up to 100 with exactness wherever a count fits a machine word (depth 64); variable indices up to 2^62.",
    "C14": " Round 5: parity chains over 60..90 statements (2^(n-1) paths) through both round trips.",
    "C15": " Round 5: files beyond 64 / 128 KiB, nesting 500..900, numbers of 18..30 digits in labels (open finding K7), --export into a fresh file next to any flag combination.",
    "C16": " Round 5: statements called TOP / BOT / T / F / u; polling beyond the service's own time limit; statement names with a NUL character (open finding K8).",
    "C17": " Round 5: account names of 60..9 000 bytes through registration, login, renaming (open finding K9).",
    "C18": " Round 5: results of conclusions() fed back as interpretations.",
    "C19": " Round 5: backlogs of 200..4 200 pending messages taken by one poll.",
    "C20": " Round 5: every standard way of consuming the iterators after j next() calls; vectors longer than 2^16 entries.",
}

# id -> (category, technique, level text, level note, design ref)
CHECKS = {
    "C01": ("exploration",
            "property-based differential testing (proptest) against a truth-table least-fixpoint oracle",
            "Generated-input search: tens of thousands of generated ADFs (all syntactic profiles, labels, layouts, sort modes; small, large up to 100 statements, re-used parser objects, logging switched on) are grounded on all five back-end paths and through the CLI (--grd, three library modes) and compared with the least fixpoint computed from the definition on truth tables. Finds any disagreement with a small witness; does not prove absence.",
            "Trusts oracle.rs/formula.rs (about 300 lines, cross-checked: brute force vs local evaluation on every small case). Labels avoid the characters biodivine reserves.",
            "DESIGN.md §6 C01"),
    "C02": ("exploration",
            "property-based differential testing (proptest) against exhaustive 3^n fixpoint enumeration",
            "Generated ADFs (n<=6 quick, 7 thorough); complete() of all five back-end paths, and the CLI --com in three modes, compared as multisets with the enumeration of all fixpoints of the consequence operator; grounded-first checked; a part runs with logging switched on.",
            "Trusts oracle.rs. Bounded to n<=7 statements (brute force).",
            "DESIGN.md §6 C02"),
    "C03": ("exploration",
            "property-based differential testing (proptest) against the reduct definition of stable models",
            "Generated ADFs; 20 call paths (plain, pre-filter, both rewritings x native/hybrid/from_biodivine/biodivine) and the CLI stable flags compared as multisets with the definition (two-valued models re-derived by the grounded interpretation of the reduct); parts with logging switched on, with ADFs of 6..11 statements that have tens to hundreds of two-valued models (oracle by formula evaluation), and with a shared variable container that grows between the biodivine ADF and the hybrid step.",
            "Trusts oracle.rs. Truth-table oracle for n<=7 statements, formula-evaluation oracle (small supports) up to 11.",
            "DESIGN.md §6 C03"),
    "C04": ("exploration",
            "property-based differential testing (proptest) against the reduct definition of stable models",
            "Generated ADFs (incl. statements sharing one condition); both counting heuristics on native, hybrid(+/-pre) and from_biodivine objects (same and fresh object) and the CLI --stmca/--stmcb compared as multisets with the definitional stable models; committed regression replays of defect D1.",
            "Trusts oracle.rs. Bounded to n<=7 statements.",
            "DESIGN.md §6 C04"),
    "C05": ("exploration",
            "property-based testing (proptest) with generated dynamic heuristics, step-bound termination oracle",
            "Generated ADF x heuristic (all built-ins, Rand with generated seeds, four families of generated custom heuristics) x mode (iterator, channel, bounded / rendezvous channel with a consumer thread) x back-end, plus the CLI --stmng/--twoval/--heu; result multiset compared with the definition, termination decided as a deterministic step bound through hook H1, sender drop checked causally.",
            "Termination is a step bound (2(2n+4)(3^n+1) loop iterations), not a proof. Trusts oracle.rs.",
            "DESIGN.md §6 C05"),
    "C06": ("exploration",
            "stateful property-based testing (proptest op sequences) against a truth-table shadow model; invariant after every step",
            "Generated operation sequences incl. eight kinds of re-materialisation on one shared store (variables spread across the 64/128 index boundaries, all 12 feature builds); after every step the whole public node table is checked to be reduced, ordered and duplicate-free, and handle equality is compared with truth-table equality over all issued handles; bridge conversions of generated ADFs are checked the same way.",
            "Trusts bddmodel.rs (bitset truth tables) and sut::walk. node() is only called order-respecting.",
            "DESIGN.md §6 C06"),
    "C07": ("exploration",
            "stateful property-based testing (proptest op sequences) against a truth-table shadow model",
            "After every generated operation (default build and all 12 feature builds, variables spread across the 64/128 index boundaries) the result handle is walked under all 2^k assignments and compared with the function the operation names; old handles must keep their functions (checked whenever the node-table prefix changes, after re-materialisations and at the end). A further part imports states whose unique table is incomplete (sharing may be lost, functions must stay right).",
            "Trusts bddmodel.rs and sut::walk; k<=6 (thorough 9) variables.",
            "DESIGN.md §6 C07"),
    "C13": ("exploration",
            "property-based testing (proptest) of read-only queries against own DFS / truth-table computations",
            "All query kinds on every handle of generated operation sequences and on acceptance conditions of generated ADFs are compared with independent computations (path DFS, truth-table counts, semantic support, cube cover/disjointness); part deep: diagrams over 20..60 variables with depth gaps up to 59 against a level-based count in 128-bit arithmetic.",
            "Memoised model counts are excluded in the default build (documented exception) and covered by C12's builds. Trusts bddmodel.rs.",
            "DESIGN.md §6 C13"),
    "C18": ("exploration",
            "stateful property-based testing (proptest add/mode histories) against a 2^n sweep reference model",
            "Generated histories of mode switches and nogood additions; the store's conclusions and closure are compared with a brute-force sweep over all total assignments (forced literals, conflicts, excluded set), for all total assignments and generated partial interpretations.",
            "n<=6 (thorough 9) variables; the empty nogood is not generated (no caller produces it). Closure through hook H2.",
            "DESIGN.md §6 C18"),
    "C19": ("exploration",
            "schedule-owning property-based testing (proptest): generated + exhaustively enumerated message-prefix cuts, plus real threads",
            "The harness owns the schedule by interposing between producer channel and receiver channel; every observable interleaving is a prefix cut. Generated schedules incl. relay chains, exhaustive one/two-poll schedules for short streams, a real-thread run checking the timing-independent prefix invariant, streams of diagrams over 65..100 variables, and the mirrored stream in all 12 feature builds.",
            "Relies on the channel being unbounded (producer never blocks).",
            "DESIGN.md §6 C19"),
    "C20": ("exploration",
            "exhaustive enumeration of all vectors up to length 7 (9) plus proptest-generated longer vectors",
            "Every vector over {bot, top, undecided} up to the length bound is enumerated; counts, distinctness, decided positions and first element are checked for both iterators.",
            "Exhaustive only up to the stated length.",
            "DESIGN.md §6 C20"),
    "C08": ("exploration",
            "grammar-based property-based testing (proptest): generated valid texts with function-level round trip, mutation-based negative tests guarded by an independent reference recogniser, token-soup differential",
            "Valid texts of the documented grammar (all label classes, layouts, fact orders) must parse to formulas denoting the written functions with labels verbatim; mutants in the four named malformation classes must be rejected without panic; on random token soups the parser's verdict must equal an independent reference recogniser's.",
            "Trusts refparse.rs (reference recogniser from the documented grammar) and formula.rs. CLI / web clauses are exercised by the C15 / C16 harnesses.",
            "DESIGN.md §6 C08"),
    "C09": ("translation_validation",
            "per-program translation validation driven by proptest-generated ADFs (exhaustive over each formula's support, sampled above 14 variables)",
            "Every generated ADF (small and large: up to 110 statements, deep formulas; part chains: 65..100 statements with conditions that are chains over all statements, up to 2^99 paths) is validated individually: each statement's diagram is compared with its formula on all assignments of the formula's support, for native compilation, biodivine import and pre-grounded import (with grounded values substituted).",
            "Supports above 14 variables are sampled (4000 assignments). Trusts formula.rs evaluator, sut::walk, oracle::grounded_local.",
            "DESIGN.md §6 C09"),
    "C10": ("exploration",
            "metamorphic property-based testing (proptest): two presentations of one ADF must give the same label->value answers",
            "Two independently generated presentations (labelling, fact order, layout, sort mode) of the same ADF are solved with all semantics on native/hybrid objects and compared as sets of label->value maps, incl. instances beyond the brute-force oracle; lexicographic order of names and printing checked.",
            "Labels without blanks/brackets; expensive semantics only when few statements stay undecided.",
            "DESIGN.md §6 C10"),
    "C11": ("exploration",
            "stateful property-based testing (proptest API-call histories): history object vs fresh object vs twin object vs oracle",
            "Generated histories of public API calls on one object; after every call the answer is compared with a fresh object's, with the definition, and with an identically built twin's raw answer (determinism); acceptance handles must keep their functions. A second part compares a store that received its nodes over the channel and was repaired with the store that built them.",
            "Memoised model counts are never queried (documented exception). n<=6 statements.",
            "DESIGN.md §6 C11"),
    "C14": ("exploration",
            "round-trip property-based testing (proptest): export/import at generated points of an object's life",
            "Generated ADFs are exported after generated call prefixes through serde JSON + fix_import and through the database-style node list; numbering, handles, names and all semantics answers must be preserved and agree with the definition (part deep-roundtrip: 65..90 statements with a chain over all of them, differential only). The server's real storage layer is driven through the MongoDB stub (part web-storage) and the CLI --export/--import in all modes with decoy neighbour files and sorting options (part cli-export).",
            "n<=6 for the library part with the definitional oracle (65..90 without it, n up to 14 through the web service).",
            "DESIGN.md §6 C14"),
    "C15": ("exploration",
            "black-box property-based testing (proptest) of the CLI binary in all three library modes against the truth-table oracle",
            "Generated files x sort flag x flag subset x --heu x --counter are run through the binary built from the current tree in all three --lib modes; stdout is parsed into sections and compared with the definitional answers; malformed files must fail without output. Open findings K1/K2 are matched by exact signature.",
            "Labels without whitespace (output lines are tokenised at blanks); n<=5.",
            "DESIGN.md §6 C15"),
    "C12": ("exploration",
            "differential property-based testing (proptest) across 12 builds of the same executor, each self-checked against the oracles",
            "Every generated case is executed by probe binaries compiled against the library under all 12 feature combinations; each probe checks its answers against shadow model / definitional oracle and emits a canonical transcript that must equal the default build's (documented exception excluded); in an exchange round every build works on the state another build exported.",
            "Only the library's feature matrix; transcripts are handle-free (semantic) so that harmless renumbering is not reported.",
            "DESIGN.md §6 C12"),
    "C16": ("exploration",
            "black-box property-based testing (proptest request sequences) of the real server binary against an in-harness MongoDB wire-protocol stub, answers compared with the truth-table oracle",
            "Generated codes (well-formed, malformed, undeclared statement) x parsing x request orders over all six strategies are sent over HTTP to the server built from the current tree; returned models and graphs are checked against the definitional answers and by evaluating the graphs under all consistent assignments; error reporting, 409/400 status and running_tasks are checked. A further part deletes a problem while one of its solve tasks is still running and adds another code under the same name (nothing of the deleted problem may reach the new one).",
            "'Eventually' is bounded polling (INCONCLUSIVE, exit 2, when a task is still listed as running after the bound). Trusts the Mongo stub's query semantics and oracle.rs.",
            "DESIGN.md §6 C16"),
    "C17": ("exploration",
            "model-based stateful property-based testing (proptest request histories by several persons) of the real server binary with database inspection after every step, plus schedule-owning runs (a request paused between two database commands by the stub)",
            "Generated multi-person request histories are executed against the server built from the current tree; a reference model predicts every response, a model-free marker invariant detects any cross-user leak, and the stub database is inspected after every step for ownership and credential storage (salted argon2 hash, no plaintext, fresh salts). Further parts: one request paused between two database commands while others run (registration races, take-overs), and persons holding two sessions (model-free invariants).",
            "Request-granularity interleavings plus one request paused at database-command granularity; persons never share passwords (shared accounts out of scope); sessions that outlive their account are generated by the model-free part second-session (open finding K6); hash checked by format, non-containment and salt freshness.",
            "DESIGN.md §6 C17"),
}

PENDING = {}

def main():
    props = [json.loads(l) for l in open(os.path.join(ROOT, "properties.jsonl"))]
    ids = [p["id"] for p in props]
    try:
        commits = subprocess.check_output(
            ["git", "-C", "/repo", "log", "--format=%H %s", "--grep=^verif hook"], text=True).strip().splitlines()
    except Exception:
        commits = []
    checks = []
    for i in ids:
        if i not in CHECKS:
            continue
        cat, tech, text, note, ref = CHECKS[i]
        text = text + ROUND5.get(i, "")
        checks.append({
            "property_id": i,
            "quick_cmd": f"./check {i} quick",
            "thorough_cmd": f"./check {i} thorough",
            "evidence_file": f"/verif/evidence/{i}.json",
            "replay_cmd_template": f"./check {i} --replay {{path}}",
            "engine": "vcheck",
            "level_claimed": {"category": cat, "text": text, "design_ref": ref},
            "level_note": note,
            "technique": tech,
        })
    na = [{"property_id": i, "reason": PENDING.get(i, "check not built yet (work in progress); nothing is claimed for this property at this commit")}
          for i in ids if i not in CHECKS]
    manifest = {
        "version": 1,
        "setup_cmd": "./check setup",
        "hooks": {
            "guard": "--cfg adf_obdd_verif",
            "enable": "RUSTFLAGS=\"--cfg adf_obdd_verif\" (set by ./check and harness/.cargo/config.toml for every build of /repo sources)",
            "baseline_off_cmd": "cd /repo && cargo test --workspace --no-fail-fast --offline",
            "source_commits": [c.split()[0] for c in commits],
            "add_only": True,
        },
        "engines": [
            {"name": "vcheck", "path": "/verif/harness", "serves_properties": [c["property_id"] for c in checks],
             "kind_free_text": "Rust binary built on proptest (sharded deterministic TestRunners seeded from VERIF_SEED), own truth-table oracles, shadow models, replay files"},
        ],
        "checks": checks,
        "notes": "Every check replays the committed regression cases in /verif/regress/<id>/ first, then runs generated search; library-level parts run a second time (30 % of the cases, other seeds) against adf_bdd built without debug assertions and overflow checks (release lane; not for C12, C15, C16, C17). Thorough adds libFuzzer campaigns (14 parallel processes, same oracles in-target) for C06, C07, C08, C13, C18, C19. exit 2 = inconclusive (build/infrastructure), never reported as a violation. Known findings: /verif/known-findings.json.",
        "not_applicable": na,
    }
    with open(os.path.join(ROOT, "MANIFEST.json"), "w") as f:
        json.dump(manifest, f, indent=1)
        f.write("\n")
    print("wrote MANIFEST.json with", len(checks), "checks,", len(na), "not claimed")

if __name__ == "__main__":
    main()
