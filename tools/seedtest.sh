#!/bin/bash
# Run checks against one seeded change: tools/seedtest.sh <dir-with-patch.diff> <Cxx> [<Cyy> ...]
# Applies the patch to /repo's working tree, runs the quick checks, always reverts.
set -u
DIR="$1"; shift
cd /verif
if [ -n "$(git -C /repo status --porcelain --untracked-files=no)" ]; then echo "refusing: /repo dirty"; exit 2; fi
git -C /repo apply "$DIR/patch.diff" || { echo "patch does not apply: $DIR"; exit 2; }
# evidence files are rewritten by every run: keep the ones of the unchanged tree
EVBAK=$(mktemp -d /verif/target/evbak.XXXX); cp -a /verif/evidence/. "$EVBAK"/
trap 'git -C /repo checkout -- . ; git -C /repo clean -fdq -- lib bin server 2>/dev/null; cp -a "$EVBAK"/. /verif/evidence/; rm -rf "$EVBAK"' EXIT
for id in "$@"; do
  s=$(date +%s)
  out=$(./check "$id" "${TIER:-quick}" 2>&1); rc=$?
  e=$(date +%s)
  verdict=MISSED; [ $rc -eq 1 ] && verdict=CAUGHT; [ $rc -eq 2 ] && verdict=INCONCLUSIVE
  echo "$(basename $(dirname $DIR))/$(basename $DIR) $id $verdict $((e-s))s"
  echo "$out" | grep -E "^property|INCONCLUSIVE|failed" | head -3 | cut -c1-400
  echo "$(date +%F_%T) $DIR $id $verdict $((e-s))s" >> /verif/notes/seeded.log
done
