#!/bin/bash
# thorough tier of every claimed check, one after the other; one line each in notes/thorough-sweep.log
cd /verif
out=notes/thorough-sweep.log
: > $out
for id in $(python3 -c "import json;print(' '.join(c['property_id'] for c in json.load(open('MANIFEST.json'))['checks']))"); do
  s=$(date +%s)
  o=$(./check $id thorough 2>&1); rc=$?
  e=$(date +%s)
  echo "$id rc=$rc $((e-s))s $(echo "$o" | grep -E "VIOLATION|INCONCLUSIVE|thorough:|^fuzz " | grep -v "release lane" | tr '\n' ' ' | cut -c1-500)" >> $out
done
echo DONE >> $out
