#!/bin/bash
# round 6: confirm one sub-agent change in its scratch worktree and archive it.
#   tools/confirm6.sh <Cxx> <k>      worktree: /tmp/wt6-<Cxx>, demo: lib/tests/demo_<cxx>.rs
# (1) whole workspace suite with the change (demo excluded), (2) demo fails with it, (3) demo passes without it.
set -u
ID="$1"; K="$2"; WT=/tmp/wt6-$ID; lc=$(echo "$ID" | tr A-Z a-z)
export CARGO_NET_OFFLINE=true
cd "$WT" || exit 2
DEMO=lib/tests/demo_$lc.rs
[ -f "$DEMO" ] || { echo "$ID no demo"; exit 2; }
git add -N -- lib/src bin/src server/src 2>/dev/null; git diff -- lib/src bin/src server/src lib/Cargo.toml bin/Cargo.toml > /tmp/wt6-$ID.patch.diff; git reset -q
[ -s /tmp/wt6-$ID.patch.diff ] || { echo "$ID empty patch"; exit 2; }
mv "$DEMO" /tmp/wt6-$ID.demo.rs
suite=$(cargo test --workspace --no-fail-fast --offline 2>&1 | grep -E "^test result" | awk '{p+=$4; f+=$6} END {print "passed=" p " failed=" f}')
cp /tmp/wt6-$ID.demo.rs "$DEMO"
cargo test -p adf_bdd --offline --test demo_$lc >/tmp/wt6-$ID.with.log 2>&1; with=$?
git apply -R /tmp/wt6-$ID.patch.diff || { echo "cannot revert"; exit 2; }
cargo test -p adf_bdd --offline --test demo_$lc >/tmp/wt6-$ID.without.log 2>&1; without=$?
git apply /tmp/wt6-$ID.patch.diff
echo "$ID/$K suite($suite) demo-with-change-rc=$with demo-without-change-rc=$without" | tee -a /verif/notes/seed-confirm-round6.log
case "$suite" in *"failed=0") ;; *) echo "suite not green"; exit 1;; esac
[ $with -ne 0 ] && [ $without -eq 0 ] || { echo "demo does not discriminate"; exit 1; }
D=/verif/seeded/$ID-$K; mkdir -p "$D"
cp /tmp/wt6-$ID.patch.diff "$D/patch.diff"; cp "$DEMO" "$D/"; [ -f SEED_NOTES.md ] && cp SEED_NOTES.md "$D/"
echo "archived $D"
