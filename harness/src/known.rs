//! Known-findings file: open findings are tolerated by exact signature only; fixed entries
//! suppress nothing. The file is never written at run time.

use crate::engine::{CheckResult, Outcome};
use serde_json::Value;
use std::collections::BTreeMap;
use std::sync::OnceLock;

static OPEN: OnceLock<BTreeMap<String, String>> = OnceLock::new();

pub fn load(path: &std::path::Path) {
    let mut m = BTreeMap::new();
    if let Ok(text) = std::fs::read_to_string(path) {
        if let Ok(v) = serde_json::from_str::<Value>(&text) {
            if let Some(arr) = v["findings"].as_array() {
                for f in arr {
                    if f["status"] == "open" {
                        if let (Some(sig), Some(what)) = (f["signature"].as_str(), f["what"].as_str())
                        {
                            m.insert(sig.to_string(), what.to_string());
                        }
                    }
                }
            }
        }
    }
    let _ = OPEN.set(m);
}

pub fn is_open(sig: &str) -> bool {
    OPEN.get().map(|m| m.contains_key(sig)).unwrap_or(false)
}

pub fn describe(sig: &str) -> String {
    match OPEN.get().and_then(|m| m.get(sig)) {
        Some(w) => format!("[{sig}] {w}"),
        None => format!("[{sig}]"),
    }
}

/// The observed behaviour matches exactly the signature of a finding: tolerated iff that finding
/// is listed as open, otherwise it is a violation with message `msg`.
pub fn known_or_fail(sig: &str, msg: String) -> CheckResult {
    if is_open(sig) {
        Ok(Outcome::Known(sig.to_string()))
    } else {
        Err(msg)
    }
}
