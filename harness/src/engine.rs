//! Sharded, deterministic proptest driver + evidence bookkeeping.
//!
//! Every random choice comes from proptest `TestRunner`s seeded from VERIF_SEED
//! (one runner per shard, seed derived from (VERIF_SEED, part name, shard index)).
//! Budgets are case counts, never time.

use proptest::strategy::{BoxedStrategy, Strategy};
use proptest::test_runner::{Config, RngSeed, TestCaseError, TestError, TestRunner};
use serde::{de::DeserializeOwned, Serialize};
use serde_json::{json, Value};
use std::cell::RefCell;
use std::collections::{BTreeMap, BTreeSet};
use std::hash::{Hash, Hasher};
use std::sync::atomic::{AtomicBool, Ordering};

#[derive(Clone, Copy, Debug, PartialEq, Eq)]
pub enum Tier {
    Quick,
    Thorough,
}

impl Tier {
    pub fn name(self) -> &'static str {
        match self {
            Tier::Quick => "quick",
            Tier::Thorough => "thorough",
        }
    }
    /// pick by tier
    pub fn pick<T>(self, q: T, t: T) -> T {
        match self {
            Tier::Quick => q,
            Tier::Thorough => t,
        }
    }
}

/// Outcome of a single executed case that did not violate the property.
#[derive(Clone, Debug, PartialEq, Eq)]
pub enum Outcome {
    Ok,
    /// The case hit exactly a listed open finding (signature id).
    Known(String),
}

pub type CheckResult = Result<Outcome, String>;

pub fn stable_hash<T: Hash>(t: &T) -> u64 {
    #[allow(deprecated)]
    let mut h = std::hash::SipHasher::new_with_keys(0x5eed, 0xadf0bdd);
    t.hash(&mut h);
    h.finish()
}

/// Per-shard / merged statistics.
#[derive(Default, Debug, Clone)]
pub struct Stats {
    pub evaluations: u64,
    pub nontrivial: BTreeSet<u64>,
    pub labels: BTreeMap<String, u64>,
    pub samples: Vec<Value>,
    pub known: BTreeMap<String, u64>,
    pub counters: BTreeMap<String, u64>,
    /// first executed case, used as a sample when no non-trivial case was seen
    pub fallback: Option<Value>,
    frozen: bool,
}

impl Stats {
    pub fn label(&mut self, l: &str) {
        if !self.frozen {
            *self.labels.entry(l.to_string()).or_insert(0) += 1;
        }
    }
    pub fn count(&mut self, l: &str, by: u64) {
        if !self.frozen {
            *self.counters.entry(l.to_string()).or_insert(0) += by;
        }
    }
    /// Register this case as non-trivial (distinctness by hash `h`); `sample` is only
    /// evaluated for the first few.
    pub fn nontrivial<F: FnOnce() -> Value>(&mut self, h: u64, sample: F) {
        if self.frozen {
            return;
        }
        if self.nontrivial.insert(h) && self.samples.len() < 3 {
            self.samples.push(sample());
        }
    }
    pub fn merge(&mut self, o: &Stats) {
        self.evaluations += o.evaluations;
        self.nontrivial.extend(o.nontrivial.iter().copied());
        for (k, v) in &o.labels {
            *self.labels.entry(k.clone()).or_insert(0) += v;
        }
        for (k, v) in &o.known {
            *self.known.entry(k.clone()).or_insert(0) += v;
        }
        for (k, v) in &o.counters {
            *self.counters.entry(k.clone()).or_insert(0) += v;
        }
        for s in &o.samples {
            if self.samples.len() < 6 {
                self.samples.push(s.clone());
            }
        }
        if self.fallback.is_none() {
            self.fallback = o.fallback.clone();
        }
    }
}

#[derive(Debug, Clone)]
pub struct Failure {
    pub part: String,
    pub case: Value,
    pub message: String,
}

pub struct Ctx {
    pub prop: String,
    pub tier: Tier,
    pub seed: u64,
    pub threads: usize,
    /// generated cases per part in permille of the part's count (release lane: a fraction)
    pub permille: u32,
}

thread_local! {
    static LAST_PANIC: RefCell<Option<String>> = const { RefCell::new(None) };
}

/// Install a panic hook that records the message instead of printing a backtrace.
pub fn install_quiet_panic_hook() {
    std::panic::set_hook(Box::new(|info| {
        let msg = if let Some(s) = info.payload().downcast_ref::<&str>() {
            s.to_string()
        } else if let Some(s) = info.payload().downcast_ref::<String>() {
            s.clone()
        } else {
            "<non-string panic>".to_string()
        };
        let loc = info
            .location()
            .map(|l| format!("{}:{}", l.file(), l.line()))
            .unwrap_or_default();
        LAST_PANIC.with(|p| *p.borrow_mut() = Some(format!("{msg} @ {loc}")));
    }));
}

/// Run `f`, turning a panic into Err(message).
pub fn catch<R>(f: impl FnOnce() -> R) -> Result<R, String> {
    match std::panic::catch_unwind(std::panic::AssertUnwindSafe(f)) {
        Ok(r) => Ok(r),
        Err(_) => Err(LAST_PANIC
            .with(|p| p.borrow_mut().take())
            .unwrap_or_else(|| "<panic>".into())),
    }
}

/// A type-erased part of a property check.
pub trait DynPart: Sync {
    fn name(&self) -> &str;
    fn run(&self, ctx: &Ctx, stats: &mut Stats) -> Option<Failure>;
    fn replay(&self, case: &Value) -> Result<CheckResult, String>;
}

pub struct Part<C> {
    pub name: &'static str,
    pub cases: u32,
    pub shrink_iters: u32,
    pub strategy: Box<dyn Fn() -> BoxedStrategy<C> + Sync>,
    pub check: Box<dyn Fn(&C, &mut Stats) -> CheckResult + Sync>,
}

impl<C> Part<C>
where
    C: Serialize + DeserializeOwned + std::fmt::Debug + Clone + 'static,
{
    pub fn new(
        name: &'static str,
        cases: u32,
        strategy: impl Fn() -> BoxedStrategy<C> + Sync + 'static,
        check: impl Fn(&C, &mut Stats) -> CheckResult + Sync + 'static,
    ) -> Box<dyn DynPart> {
        Box::new(Part {
            name,
            cases,
            shrink_iters: 4000,
            strategy: Box::new(strategy),
            check: Box::new(check),
        })
    }

    /// same with an explicit bound on shrink iterations (for expensive failing cases)
    pub fn with_shrink(
        name: &'static str,
        cases: u32,
        shrink_iters: u32,
        strategy: impl Fn() -> BoxedStrategy<C> + Sync + 'static,
        check: impl Fn(&C, &mut Stats) -> CheckResult + Sync + 'static,
    ) -> Box<dyn DynPart> {
        Box::new(Part {
            name,
            cases,
            shrink_iters,
            strategy: Box::new(strategy),
            check: Box::new(check),
        })
    }

    fn run_case(&self, c: &C, st: &mut Stats) -> CheckResult {
        match catch(|| (self.check)(c, st)) {
            Ok(r) => r,
            Err(p) => Err(format!("panic: {p}")),
        }
    }
}

impl<C> DynPart for Part<C>
where
    C: Serialize + DeserializeOwned + std::fmt::Debug + Clone + 'static,
{
    fn name(&self) -> &str {
        self.name
    }

    fn run(&self, ctx: &Ctx, stats: &mut Stats) -> Option<Failure> {
        let cases = ((self.cases as u64 * ctx.permille as u64) / 1000).max(self.cases.min(64) as u64) as u32;
        let shards = ctx.threads.max(1).min(cases.max(1) as usize);
        let per = cases.div_ceil(shards as u32);
        let stop = AtomicBool::new(false);
        let mut results: Vec<(Stats, Option<Failure>)> = Vec::new();
        std::thread::scope(|scope| {
            let mut handles = Vec::new();
            for shard in 0..shards {
                let stop = &stop;
                let this = &*self;
                let seed = stable_hash(&(ctx.seed, this.name, shard as u64, ctx.prop.as_str()));
                handles.push(
                    std::thread::Builder::new()
                        .stack_size(256 << 20)
                        .spawn_scoped(scope, move || {
                            let st = RefCell::new(Stats::default());
                            let first_fail: RefCell<Option<(Value, String)>> = RefCell::new(None);
                            let config = Config {
                                cases: per,
                                failure_persistence: None,
                                rng_seed: RngSeed::Fixed(seed),
                                max_shrink_iters: this.shrink_iters,
                                max_shrink_time: 30_000,
                                verbose: 0,
                                ..Config::default()
                            };
                            let mut runner = TestRunner::new(config);
                            let strat = (this.strategy)();
                            let trace = std::env::var("VERIF_TRACE_DIR").ok().map(|d| {
                                std::path::PathBuf::from(d).join(format!("{}-{}.json", this.name, shard))
                            });
                            let prop_id = ctx.prop.clone();
                            let res = runner.run(&strat, |case| {
                                if stop.load(Ordering::Relaxed) && !st.borrow().frozen {
                                    return Ok(());
                                }
                                if let Some(t) = &trace {
                                    // crash hunting: remember the case before running it
                                    let body = serde_json::json!({"property": prop_id, "part": this.name, "case": &case,
                                        "message": "the process died (signal / abort / stack overflow) while executing this case"});
                                    let _ = std::fs::write(t, body.to_string());
                                }
                                let mut s = st.borrow_mut();
                                if !s.frozen {
                                    s.evaluations += 1;
                                    if s.fallback.is_none() {
                                        s.fallback = serde_json::to_value(&case).ok();
                                    }
                                }
                                match this.run_case(&case, &mut s) {
                                    Ok(Outcome::Ok) => Ok(()),
                                    Ok(Outcome::Known(sig)) => {
                                        if !s.frozen {
                                            *s.known.entry(sig).or_insert(0) += 1;
                                        }
                                        Ok(())
                                    }
                                    Err(m) => {
                                        if !s.frozen {
                                            // remember the original failure (timing-dependent failures may not shrink)
                                            *first_fail.borrow_mut() = Some((serde_json::to_value(&case).unwrap_or(Value::Null), m.clone()));
                                        }
                                        s.frozen = true;
                                        stop.store(true, Ordering::Relaxed);
                                        Err(TestCaseError::fail(m))
                                    }
                                }
                            });
                            let fail = match res {
                                Ok(()) => None,
                                Err(TestError::Fail(_reason, value)) => {
                                    // re-run the shrunk value to get its own message
                                    let mut scratch = Stats::default();
                                    scratch.frozen = true;
                                    match this.run_case(&value, &mut scratch) {
                                        Err(message) => Some(Failure {
                                            part: this.name.to_string(),
                                            case: serde_json::to_value(&value)
                                                .unwrap_or(Value::String(format!("{value:?}"))),
                                            message,
                                        }),
                                        Ok(_) => {
                                            // not reproducible after shrinking (e.g. thread timing): report the
                                            // case and message of the original failure
                                            let (case, message) = first_fail.borrow_mut().take().unwrap_or((Value::Null, "failure vanished".into()));
                                            Some(Failure {
                                                part: this.name.to_string(),
                                                case,
                                                message: format!("{message} [observed once; did not reproduce while shrinking: timing-dependent]"),
                                            })
                                        }
                                    }
                                }
                                Err(TestError::Abort(reason)) => Some(Failure {
                                    part: this.name.to_string(),
                                    case: Value::Null,
                                    message: format!("generator aborted: {reason}"),
                                }),
                            };
                            (st.into_inner(), fail)
                        })
                        .expect("spawn"),
                );
            }
            for h in handles {
                results.push(h.join().expect("shard thread"));
            }
        });
        let mut first_fail = None;
        for (st, f) in results {
            stats.merge(&st);
            if first_fail.is_none() {
                if let Some(f) = f {
                    if f.case != Value::Null || first_fail.is_none() {
                        first_fail = Some(f);
                    }
                }
            }
        }
        first_fail
    }

    fn replay(&self, case: &Value) -> Result<CheckResult, String> {
        let c: C = serde_json::from_value(case.clone()).map_err(|e| format!("bad case: {e}"))?;
        let mut st = Stats::default();
        Ok(self.run_case(&c, &mut st))
    }
}

/// An exhaustive (enumerated) part.
pub struct EnumPart<C> {
    pub name: &'static str,
    pub items: Box<dyn Fn() -> Box<dyn Iterator<Item = C>> + Sync>,
    pub check: Box<dyn Fn(&C, &mut Stats) -> CheckResult + Sync>,
}

impl<C> EnumPart<C>
where
    C: Serialize + DeserializeOwned + std::fmt::Debug + Clone + 'static,
{
    pub fn new(
        name: &'static str,
        items: impl Fn() -> Box<dyn Iterator<Item = C>> + Sync + 'static,
        check: impl Fn(&C, &mut Stats) -> CheckResult + Sync + 'static,
    ) -> Box<dyn DynPart> {
        Box::new(EnumPart {
            name,
            items: Box::new(items),
            check: Box::new(check),
        })
    }
}

impl<C> DynPart for EnumPart<C>
where
    C: Serialize + DeserializeOwned + std::fmt::Debug + Clone + 'static,
{
    fn name(&self) -> &str {
        self.name
    }
    fn run(&self, _ctx: &Ctx, stats: &mut Stats) -> Option<Failure> {
        for c in (self.items)() {
            stats.evaluations += 1;
            if stats.fallback.is_none() {
                stats.fallback = serde_json::to_value(&c).ok();
            }
            let r = match catch(|| (self.check)(&c, stats)) {
                Ok(r) => r,
                Err(p) => Err(format!("panic: {p}")),
            };
            match r {
                Ok(Outcome::Ok) => {}
                Ok(Outcome::Known(sig)) => *stats.known.entry(sig).or_insert(0) += 1,
                Err(message) => {
                    return Some(Failure {
                        part: self.name.to_string(),
                        case: serde_json::to_value(&c).unwrap_or(Value::Null),
                        message,
                    })
                }
            }
        }
        stats.label(&format!("{}:exhaustive", self.name));
        None
    }
    fn replay(&self, case: &Value) -> Result<CheckResult, String> {
        let c: C = serde_json::from_value(case.clone()).map_err(|e| format!("bad case: {e}"))?;
        let mut st = Stats::default();
        Ok(match catch(|| (self.check)(&c, &mut st)) {
            Ok(r) => r,
            Err(p) => Err(format!("panic: {p}")),
        })
    }
}

/// Static description of a property check.
pub struct PropSpec {
    pub id: &'static str,
    pub level: &'static str,
    pub rule: &'static str,
    pub assumptions: Vec<&'static str>,
    pub parts: Vec<Box<dyn DynPart>>,
    pub exhaustive: bool,
}

pub fn evidence_json(
    spec: &PropSpec,
    ctx: &Ctx,
    stats: &Stats,
    per_part: &BTreeMap<String, Value>,
    wall_s: f64,
    violations: u64,
    extra: Option<Value>,
) -> Value {
    let mut samples = stats.samples.clone();
    if samples.is_empty() {
        if let Some(f) = &stats.fallback {
            samples.push(json!({"trivial_case": f}));
        }
    }
    let mut coverage = json!({
        "evaluations": stats.evaluations,
        "distinct_nontrivial": stats.nontrivial.len(),
        "rule": spec.rule,
        "samples": samples,
        "labels": stats.labels,
        "counters": stats.counters,
        "parts": per_part,
        "excluded_known": stats.known,
        "exhaustive": spec.exhaustive,
    });
    if spec.level == "translation_validation" {
        coverage["programs"] = json!(stats.counters.get("programs").copied().unwrap_or(0));
        coverage["disagreements_checked"] =
            json!(stats.counters.get("obligations_checked").copied().unwrap_or(0));
    }
    if let Some(Value::Object(m)) = extra {
        for (k, v) in m {
            coverage[k] = v;
        }
    }
    json!({
        "property_id": spec.id,
        "tier": ctx.tier.name(),
        "seed": ctx.seed,
        "level": spec.level,
        "coverage": coverage,
        "assumptions": spec.assumptions,
        "wall_s": wall_s,
        "violations": violations,
    })
}

pub fn boxed<S: Strategy + 'static>(s: S) -> BoxedStrategy<S::Value> {
    s.boxed()
}


// ------------------------------------------------------------------------------------------
// logging switched on: the library's log statements are executed (arguments evaluated, records
// formatted) - defects hidden in logging code only show when a logger is active

struct Sink;
impl log::Log for Sink {
    fn enabled(&self, _: &log::Metadata) -> bool {
        true
    }
    fn log(&self, r: &log::Record) {
        if r.level() <= log::Level::Debug {
            let s = r.args().to_string();
            std::hint::black_box(s);
        }
    }
    fn flush(&self) {}
}
static SINK: Sink = Sink;

/// Wraps a part: while it runs, a logger that formats every record up to debug level (and lets the
/// arguments of trace records be evaluated) is active. Parts run one after another, so the global
/// switch does not leak into other parts.
pub struct Logged(pub Box<dyn DynPart>);

impl DynPart for Logged {
    fn name(&self) -> &str {
        self.0.name()
    }
    fn run(&self, ctx: &Ctx, stats: &mut Stats) -> Option<Failure> {
        let _ = log::set_logger(&SINK);
        log::set_max_level(log::LevelFilter::Trace);
        let r = self.0.run(ctx, stats);
        log::set_max_level(log::LevelFilter::Off);
        r
    }
    fn replay(&self, case: &Value) -> Result<CheckResult, String> {
        let _ = log::set_logger(&SINK);
        log::set_max_level(log::LevelFilter::Trace);
        let r = self.0.replay(case);
        log::set_max_level(log::LevelFilter::Off);
        r
    }
}
