//! Definitional ADF semantics on truth tables (trusted base, shares nothing with the library).
//!
//! An ADF is `&[F]`, statement i has acceptance condition acs[i]. Exact brute force for n <= 7;
//! a local three-valued evaluation (`gamma_local`) for large ADFs with bounded supports.

use crate::formula::F;
use serde::{Deserialize, Serialize};

#[derive(Clone, Copy, Debug, PartialEq, Eq, Hash, PartialOrd, Ord, Serialize, Deserialize)]
pub enum Tv {
    F,
    T,
    U,
}

impl Tv {
    pub fn ch(self) -> char {
        match self {
            Tv::T => 'T',
            Tv::F => 'F',
            Tv::U => 'u',
        }
    }
    pub fn decided(self) -> bool {
        self != Tv::U
    }
}

pub type Interp = Vec<Tv>;

pub fn show(i: &[Tv]) -> String {
    i.iter().map(|t| t.ch()).collect()
}
pub fn show_set(s: &[Interp]) -> String {
    let mut v: Vec<String> = s.iter().map(|i| show(i)).collect();
    v.sort();
    format!("{{{}}}", v.join(","))
}

/// Brute-force oracle for n <= 7.
pub struct Oracle {
    pub n: usize,
    pub tts: Vec<u128>,
    full: u128,
}

impl Oracle {
    pub fn new(acs: &[F]) -> Self {
        let n = acs.len();
        assert!(n <= 7, "brute-force oracle is for n <= 7");
        let full = if n == 7 { u128::MAX } else { (1u128 << (1u32 << n)) - 1 };
        Oracle {
            n,
            tts: acs.iter().map(|f| f.tt(n)).collect(),
            full,
        }
    }

    /// mask of total assignments that are completions of v
    fn completions(&self, v: &[Tv]) -> u128 {
        let mut m = 0u128;
        'a: for a in 0..(1u64 << self.n) {
            for (i, t) in v.iter().enumerate() {
                let bit = (a >> i) & 1 == 1;
                match t {
                    Tv::T if !bit => continue 'a,
                    Tv::F if bit => continue 'a,
                    _ => {}
                }
            }
            m |= 1u128 << a;
        }
        m & self.full
    }

    /// three-valued consequence operator
    pub fn gamma(&self, v: &[Tv]) -> Interp {
        let comp = self.completions(v);
        self.tts
            .iter()
            .map(|&tt| {
                if tt & comp == comp {
                    Tv::T
                } else if tt & comp == 0 {
                    Tv::F
                } else {
                    Tv::U
                }
            })
            .collect()
    }

    /// least fixpoint from all-undecided; also the number of rounds that changed something
    pub fn grounded(&self) -> (Interp, usize) {
        let mut v = vec![Tv::U; self.n];
        let mut rounds = 0;
        loop {
            let w = self.gamma(&v);
            if w == v {
                return (v, rounds);
            }
            // monotone: decided values stay (least fixpoint iteration from bottom)
            v = w;
            rounds += 1;
        }
    }

    pub fn complete(&self) -> Vec<Interp> {
        let mut res = Vec::new();
        let mut v = vec![Tv::F; self.n];
        loop {
            if self.gamma(&v) == v {
                res.push(v.clone());
            }
            // next in base 3
            let mut i = 0;
            loop {
                if i == self.n {
                    res.sort();
                    return res;
                }
                v[i] = match v[i] {
                    Tv::F => Tv::T,
                    Tv::T => Tv::U,
                    Tv::U => Tv::F,
                };
                if v[i] != Tv::F {
                    break;
                }
                i += 1;
            }
        }
    }

    pub fn two_valued(&self) -> Vec<Interp> {
        let mut res = Vec::new();
        for a in 0..(1u64 << self.n) {
            if (0..self.n).all(|s| ((self.tts[s] >> a) & 1 == 1) == ((a >> s) & 1 == 1)) {
                res.push(
                    (0..self.n)
                        .map(|s| if (a >> s) & 1 == 1 { Tv::T } else { Tv::F })
                        .collect(),
                );
            }
        }
        res.sort();
        res
    }
}

/// Stable models by the definition in C03: two-valued models v such that the grounded
/// interpretation of the reduct (every false statement of v replaced by falsum in every
/// acceptance condition) re-derives every true statement of v.
pub fn stable(acs: &[F]) -> Vec<Interp> {
    let o = Oracle::new(acs);
    let mut res = Vec::new();
    for v in o.two_valued() {
        let reduct: Vec<F> = acs
            .iter()
            .map(|f| f.subst(&|i| if v[i] == Tv::F { Some(false) } else { None }))
            .collect();
        let (g, _) = Oracle::new(&reduct).grounded();
        if (0..acs.len()).all(|s| v[s] != Tv::T || g[s] == Tv::T) {
            res.push(v);
        }
    }
    res.sort();
    res
}

/// Local three-valued evaluation of one formula under a partial interpretation: T if true under
/// all completions of its (undecided) support, F if false under all, else U. Exponential only in
/// the number of undecided support variables.
pub fn eval3(f: &F, v: &[Tv]) -> Tv {
    let sup: Vec<usize> = f.support().into_iter().filter(|&i| v[i] == Tv::U).collect();
    if sup.len() > 22 {
        // wide conditions (parity / chains over dozens of statements): when every undecided statement occurs only once
        // in the formula, the sub-formulas range over disjoint undecided statements and strong Kleene evaluation is exact
        // (by induction: a sub-formula evaluates to U iff it takes both values over the completions, independently of its
        // siblings)
        let mut occ = std::collections::HashMap::new();
        count_occurrences(f, &mut occ);
        assert!(sup.iter().all(|i| occ.get(i) == Some(&1)), "support too large for local evaluation and the formula is not read-once");
        return kleene(f, v);
    }
    let mut any_t = false;
    let mut any_f = false;
    for a in 0..(1u64 << sup.len()) {
        let val = f.eval(&|i| match v[i] {
            Tv::T => true,
            Tv::F => false,
            Tv::U => {
                let j = sup.iter().position(|&s| s == i).unwrap();
                (a >> j) & 1 == 1
            }
        });
        if val {
            any_t = true;
        } else {
            any_f = true;
        }
        if any_t && any_f {
            return Tv::U;
        }
    }
    if any_t {
        Tv::T
    } else {
        Tv::F
    }
}

fn count_occurrences(f: &F, occ: &mut std::collections::HashMap<usize, usize>) {
    match f {
        F::Top | F::Bot => {}
        F::Atom(i) => *occ.entry(*i).or_insert(0) += 1,
        F::Not(a) => count_occurrences(a, occ),
        F::And(a, b) | F::Or(a, b) | F::Imp(a, b) | F::Iff(a, b) | F::Xor(a, b) => {
            count_occurrences(a, occ);
            count_occurrences(b, occ);
        }
    }
}

/// strong Kleene evaluation (exact for formulas in which every undecided statement occurs once)
fn kleene(f: &F, v: &[Tv]) -> Tv {
    let neg = |t: Tv| match t {
        Tv::T => Tv::F,
        Tv::F => Tv::T,
        Tv::U => Tv::U,
    };
    let and = |a: Tv, b: Tv| if a == Tv::F || b == Tv::F { Tv::F } else if a == Tv::T && b == Tv::T { Tv::T } else { Tv::U };
    match f {
        F::Top => Tv::T,
        F::Bot => Tv::F,
        F::Atom(i) => v[*i],
        F::Not(a) => neg(kleene(a, v)),
        F::And(a, b) => and(kleene(a, v), kleene(b, v)),
        F::Or(a, b) => neg(and(neg(kleene(a, v)), neg(kleene(b, v)))),
        F::Imp(a, b) => neg(and(kleene(a, v), neg(kleene(b, v)))),
        F::Iff(a, b) | F::Xor(a, b) => {
            let (x, y) = (kleene(a, v), kleene(b, v));
            if x == Tv::U || y == Tv::U {
                Tv::U
            } else if (x == y) == matches!(f, F::Iff(..)) {
                Tv::T
            } else {
                Tv::F
            }
        }
    }
}

/// Grounded interpretation for ADFs of any size with bounded supports.
pub fn grounded_local(acs: &[F]) -> (Interp, usize) {
    let mut v = vec![Tv::U; acs.len()];
    let mut rounds = 0;
    loop {
        let w: Interp = acs
            .iter()
            .enumerate()
            .map(|(s, f)| if v[s] != Tv::U { v[s] } else { eval3(f, &v) })
            .collect();
        if w == v {
            return (v, rounds);
        }
        v = w;
        rounds += 1;
    }
}

/// Two-valued models of an ADF with up to ~14 statements, by evaluating every acceptance condition under every
/// total assignment (no truth tables).
pub fn two_valued_wide(acs: &[F]) -> Vec<Interp> {
    let n = acs.len();
    assert!(n <= 16);
    let mut res = Vec::new();
    for a in 0..(1u64 << n) {
        if (0..n).all(|s| acs[s].eval_bits(a) == ((a >> s) & 1 == 1)) {
            res.push((0..n).map(|s| if (a >> s) & 1 == 1 { Tv::T } else { Tv::F }).collect());
        }
    }
    res.sort();
    res
}

/// Stable models by the definition of C03 for ADFs with up to ~14 statements and small supports: the reduct is
/// formed by substitution, its grounded interpretation by the local three-valued evaluation.
pub fn stable_wide(acs: &[F]) -> (Vec<Interp>, Vec<Interp>) {
    let two = two_valued_wide(acs);
    let mut res = Vec::new();
    for v in &two {
        let reduct: Vec<F> = acs.iter().map(|f| f.subst(&|i| if v[i] == Tv::F { Some(false) } else { None })).collect();
        let (g, _) = grounded_local(&reduct);
        if (0..acs.len()).all(|s| v[s] != Tv::T || g[s] == Tv::T) {
            res.push(v.clone());
        }
    }
    res.sort();
    (res, two)
}


/// Two-valued models of an ADF of any width in which only few statements lie on dependency cycles: the values of the
/// statements on cycles are enumerated (2^c assignments), every other statement is a function of statements that come
/// earlier in a topological order of the (acyclic) rest and is computed by evaluating its condition. Exact; None if more
/// than 16 statements lie on cycles.
pub fn two_valued_sparse(acs: &[F]) -> Option<Vec<Interp>> {
    let n = acs.len();
    let deps: Vec<Vec<usize>> = acs.iter().map(|f| f.support().into_iter().collect()).collect();
    // cyclic[i]: i reaches itself through at least one dependency edge
    let mut cyclic = vec![false; n];
    for i in 0..n {
        let mut seen = vec![false; n];
        let mut stack: Vec<usize> = deps[i].clone();
        while let Some(x) = stack.pop() {
            if x == i {
                cyclic[i] = true;
                break;
            }
            if std::mem::replace(&mut seen[x], true) {
                continue;
            }
            stack.extend(deps[x].iter().copied());
        }
    }
    let cyc: Vec<usize> = (0..n).filter(|&i| cyclic[i]).collect();
    if cyc.len() > 16 {
        return None;
    }
    // topological order of the acyclic statements (dependencies first), iterative DFS
    let mut order = Vec::new();
    let mut state = vec![0u8; n];
    for root in 0..n {
        if cyclic[root] || state[root] != 0 {
            continue;
        }
        let mut stack = vec![(root, 0usize)];
        state[root] = 1;
        while let Some((x, k)) = stack.pop() {
            if k < deps[x].len() {
                stack.push((x, k + 1));
                let d = deps[x][k];
                if !cyclic[d] && state[d] == 0 {
                    state[d] = 1;
                    stack.push((d, 0));
                }
            } else {
                state[x] = 2;
                order.push(x);
            }
        }
    }
    let mut res = Vec::new();
    let mut v = vec![false; n];
    for a in 0..(1u64 << cyc.len()) {
        for (j, &c) in cyc.iter().enumerate() {
            v[c] = (a >> j) & 1 == 1;
        }
        for &x in &order {
            v[x] = acs[x].eval(&|i| v[i]);
        }
        if cyc.iter().all(|&c| acs[c].eval(&|i| v[i]) == v[c]) {
            res.push(v.iter().map(|&b| if b { Tv::T } else { Tv::F }).collect());
        }
    }
    res.sort();
    Some(res)
}

/// Stable models by the definition for wide ADFs with few statements on cycles (see `two_valued_sparse`): each
/// two-valued model is tested with the grounded interpretation of its reduct (local three-valued evaluation).
pub fn stable_sparse(acs: &[F]) -> Option<(Vec<Interp>, Vec<Interp>)> {
    let two = two_valued_sparse(acs)?;
    let mut res = Vec::new();
    for v in &two {
        let reduct: Vec<F> = acs.iter().map(|f| f.subst(&|i| if v[i] == Tv::F { Some(false) } else { None })).collect();
        let (g, _) = grounded_local(&reduct);
        if (0..acs.len()).all(|s| v[s] != Tv::T || g[s] == Tv::T) {
            res.push(v.clone());
        }
    }
    res.sort();
    Some((res, two))
}

#[cfg(test)]
mod test {
    use super::*;
    #[test]
    fn lib_doc_example() {
        // s(a).s(b).s(c).s(d).ac(a,c(v)).ac(b,or(a,b)).ac(c,neg(b)).ac(d,d).
        let acs = vec![
            F::Top,
            F::or(F::Atom(0), F::Atom(1)),
            F::not(F::Atom(1)),
            F::Atom(3),
        ];
        let o = Oracle::new(&acs);
        assert_eq!(show(&o.grounded().0), "TTFu");
        assert_eq!(show(&grounded_local(&acs).0), "TTFu");
        assert_eq!(show_set(&o.complete()), "{TTFF,TTFT,TTFu}");
        assert_eq!(show_set(&stable(&acs)), "{TTFF}");
        assert_eq!(show_set(&o.two_valued()), "{TTFF,TTFT}");
        assert_eq!(show_set(&stable_wide(&acs).0), "{TTFF}");
        assert_eq!(show_set(&stable_wide(&acs).1), "{TTFF,TTFT}");
        assert_eq!(show_set(&stable_sparse(&acs).unwrap().0), "{TTFF}");
        assert_eq!(show_set(&stable_sparse(&acs).unwrap().1), "{TTFF,TTFT}");
    }
}
