//! vcheck — property-based checks for ellmau/adf-obdd (see /verif/DESIGN.md).
//!
//! usage: vcheck <Cxx> <quick|thorough>
//!        vcheck <Cxx> --replay <file>

pub mod bddmodel;
pub mod calls;
pub mod engine;
pub mod formula;
pub mod fuzzentry;
pub mod gen;
pub mod known;
pub mod oracle;
pub mod probe;
pub mod props;
pub mod queries;
pub mod refparse;
pub mod srvkit;
pub mod sut;

use engine::*;
use serde_json::{json, Value};
use std::collections::BTreeMap;
use std::path::PathBuf;
use std::time::Instant;

pub fn verif_root() -> PathBuf {
    PathBuf::from(std::env::var("VERIF_ROOT").unwrap_or_else(|_| "/verif".into()))
}

fn write_replay(prop: &str, f: &Failure, seed: u64) -> PathBuf {
    let dir = verif_root().join("replays").join(prop);
    let _ = std::fs::create_dir_all(&dir);
    let body = json!({
        "property": prop,
        "part": f.part,
        "case": f.case,
        "message": f.message,
        "seed": seed,
    });
    let text = serde_json::to_string_pretty(&body).unwrap();
    let h = stable_hash(&text);
    let lane = if cfg!(debug_assertions) { "" } else { "release-lane-" };
    let path = dir.join(format!("{lane}{}-{:016x}.json", f.part, h));
    std::fs::write(&path, text).expect("write replay");
    path
}

fn replay_file(spec: &PropSpec, path: &std::path::Path) -> Result<CheckResult, String> {
    let text = std::fs::read_to_string(path).map_err(|e| format!("{}: {e}", path.display()))?;
    let v: Value = serde_json::from_str(&text).map_err(|e| format!("{}: {e}", path.display()))?;
    let part = v["part"].as_str().ok_or("replay file without part")?;
    let p = spec
        .parts
        .iter()
        .find(|p| p.name() == part)
        .ok_or_else(|| format!("unknown part {part} for {}", spec.id))?;
    p.replay(&v["case"])
}

pub fn main_entry() {
    let args: Vec<String> = std::env::args().collect();
    if args.len() < 3 {
        eprintln!("usage: vcheck <Cxx> <quick|thorough> | vcheck <Cxx> --replay <file>");
        std::process::exit(2);
    }
    let id = args[1].clone();
    if id == "serve" {
        // vcheck serve <seconds>: the service + database stub for manual probing (prints the HTTP port)
        let secs: u64 = args[2].parse().unwrap_or(60);
        match srvkit::Server::start() {
            Ok(s) => {
                println!("PORT {}", s.port);
                use std::io::Write;
                let _ = std::io::stdout().flush();
                let t0 = std::time::Instant::now();
                while t0.elapsed().as_secs() < secs {
                    std::thread::sleep(std::time::Duration::from_millis(500));
                    if std::path::Path::new("/verif/target/serve.dump").exists() {
                        let _ = std::fs::remove_file("/verif/target/serve.dump");
                        for coll in ["adf-obdd.users", "adf-obdd.adf-problems"] {
                            for d in s.stub.snapshot(coll) {
                                println!("{coll}: {}", format!("{d}").chars().take(600).collect::<String>());
                            }
                        }
                        let _ = std::io::stdout().flush();
                    }
                }
                std::process::exit(0);
            }
            Err(e) => {
                eprintln!("cannot start: {e}");
                std::process::exit(2);
            }
        }
    }
    if id == "fuzz-replay" {
        // vcheck fuzz-replay <target> <file>
        install_quiet_panic_hook();
        known::load(&verif_root().join("known-findings.json"));
        let target = args[2].clone();
        let file = args.get(3).cloned().unwrap_or_default();
        let data = std::fs::read(&file).unwrap_or_else(|e| {
            eprintln!("cannot read {file}: {e}");
            std::process::exit(2)
        });
        let prop = match target.as_str() {
            "fz_parser" => "C08",
            "fz_nogood" => "C18",
            _ => "C07",
        };
        match fuzzentry::run(&target, &data) {
            Ok(()) => {
                println!("fuzz-replay {target} {file}: property holds on this input");
                std::process::exit(0)
            }
            Err(m) => {
                let prop = if m.contains("canonicity") || m.contains("not reduced") || m.contains("not ordered") || m.contains("duplicate nodes") {
                    "C06"
                } else if m.contains("paths(") || m.contains("models(") || m.contains("max_depth") || m.contains("var_dependencies") || m.contains("interpretations(") || m.contains("_var_impact") {
                    "C13"
                } else if m.contains("poll(") || m.contains("producer sent") || m.contains("draining") {
                    "C19"
                } else {
                    prop
                };
                println!("fuzz-replay {target} {file}: {m}");
                println!("VIOLATION property={prop} replay={file}");
                std::process::exit(1)
            }
        }
    }
    if id == "smoke-server" {
        smoke_server();
        return;
    }
    install_quiet_panic_hook();
    known::load(&verif_root().join("known-findings.json"));

    if args[2] == "--replay" {
        let spec = props::spec(&id, Tier::Quick).unwrap_or_else(|| {
            eprintln!("unknown property {id}");
            std::process::exit(2)
        });
        let path = PathBuf::from(&args[3]);
        match replay_file(&spec, &path) {
            Ok(Ok(Outcome::Ok)) => {
                println!("replay {}: property holds on this case", path.display());
                std::process::exit(0)
            }
            Ok(Ok(Outcome::Known(sig))) => {
                println!("KNOWN-FINDING: property={id} {}", known::describe(&sig));
                std::process::exit(0)
            }
            Ok(Err(m)) => {
                println!("replay {}: {m}", path.display());
                println!("VIOLATION property={id} replay={}", path.display());
                std::process::exit(1)
            }
            Err(e) => {
                eprintln!("cannot replay: {e}");
                std::process::exit(2)
            }
        }
    }

    let tier = match args[2].as_str() {
        "quick" => Tier::Quick,
        "thorough" => Tier::Thorough,
        other => {
            eprintln!("unknown tier {other}");
            std::process::exit(2)
        }
    };
    let seed: u64 = std::env::var("VERIF_SEED")
        .ok()
        .and_then(|s| s.trim().parse::<i128>().ok())
        .map(|v| v as u64)
        .unwrap_or(20260926);
    let threads = std::env::var("VERIF_THREADS")
        .ok()
        .and_then(|s| s.parse().ok())
        .unwrap_or_else(|| {
            std::thread::available_parallelism()
                .map(|n| n.get())
                .unwrap_or(4)
        });
    // release lane: this binary was built without debug assertions / overflow checks; it runs the library-level
    // parts on a fraction of the cases (other cases than the main lane) and reports into a side file
    let release_lane = std::env::var("VERIF_LANE").map(|l| l == "release").unwrap_or(false);
    if release_lane && cfg!(debug_assertions) {
        eprintln!("VERIF_LANE=release needs the binary of profile relcheck");
        std::process::exit(2);
    }
    let seed = if release_lane { seed ^ 0x5eed_0000_0000 } else { seed };
    let ctx = Ctx {
        prop: id.clone(),
        tier,
        seed,
        threads,
        permille: if release_lane { 300 } else { 1000 },
    };
    let spec = props::spec(&id, tier).unwrap_or_else(|| {
        eprintln!("unknown property {id}");
        std::process::exit(2)
    });
    let start = Instant::now();
    let mut total = Stats::default();
    let mut per_part: BTreeMap<String, Value> = BTreeMap::new();
    let mut violation: Option<PathBuf> = None;

    // 1. committed regression replays
    let regress_dir = verif_root().join("regress").join(&id);
    let mut regress_ok = 0u64;
    if let Ok(rd) = std::fs::read_dir(&regress_dir) {
        let mut files: Vec<PathBuf> = rd
            .filter_map(|e| e.ok().map(|e| e.path()))
            .filter(|p| p.extension().map(|e| e == "json").unwrap_or(false))
            .collect();
        files.sort();
        for f in files {
            match replay_file(&spec, &f) {
                Ok(Ok(Outcome::Ok)) => regress_ok += 1,
                Ok(Ok(Outcome::Known(sig))) => {
                    *total.known.entry(sig).or_insert(0) += 1;
                    regress_ok += 1
                }
                Ok(Err(m)) => {
                    println!("regression replay {} fails: {m}", f.display());
                    violation = Some(f);
                    break;
                }
                Err(e) => {
                    eprintln!("cannot replay {}: {e}", f.display());
                    std::process::exit(2);
                }
            }
        }
    }
    total.count("regression_replays_passed", regress_ok);

    // 2. generated search
    if violation.is_none() {
        for part in &spec.parts {
            // parts that drive separately built binaries (CLI, service, feature probes) have no release lane
            let external = part.name().starts_with("cli") || ["feature-lanes", "probes", "web-storage"].contains(&part.name());
            if release_lane && external {
                continue;
            }
            let mut st = Stats::default();
            let t0 = Instant::now();
            let fail = part.run(&ctx, &mut st);
            per_part.insert(
                part.name().to_string(),
                json!({
                    "evaluations": st.evaluations,
                    "distinct_nontrivial": st.nontrivial.len(),
                    "wall_s": t0.elapsed().as_secs_f64(),
                }),
            );
            total.merge(&st);
            if let Some(f) = fail {
                if f.message.contains("INCONCLUSIVE") {
                    println!("{}", f.message);
                    println!("INCONCLUSIVE: property {id} part {} could not be decided (infrastructure / time budget), no violation claimed", f.part);
                    std::process::exit(2);
                }
                let path = write_replay(&id, &f, seed);
                println!(
                    "property {id} part {}: {}\n  shrunk case: {}",
                    f.part,
                    f.message,
                    serde_json::to_string(&f.case).unwrap_or_default()
                );
                violation = Some(path);
                break;
            }
        }
    }

    let wall = start.elapsed().as_secs_f64();
    let ev = evidence_json(
        &spec,
        &ctx,
        &total,
        &per_part,
        wall,
        if violation.is_some() { 1 } else { 0 },
        None,
    );
    let evdir = if release_lane { verif_root().join("target").join("evidence-release") } else { verif_root().join("evidence") };
    let _ = std::fs::create_dir_all(&evdir);
    std::fs::write(
        evdir.join(format!("{id}.json")),
        serde_json::to_string_pretty(&ev).unwrap(),
    )
    .expect("write evidence");

    for (sig, cnt) in &total.known {
        println!(
            "KNOWN-FINDING: property={id} {} (hit {cnt}x, excluded by construction)",
            known::describe(sig)
        );
    }
    println!(
        "{id} {}{}: evaluations={} distinct_nontrivial={} wall={:.1}s seed={seed}",
        tier.name(),
        if release_lane { " (release lane: no debug assertions, no overflow checks)" } else { "" },
        total.evaluations,
        total.nontrivial.len(),
        wall
    );
    if let Some(p) = violation {
        println!("VIOLATION property={id} replay={}", p.display());
        std::process::exit(1);
    }
}

fn smoke_server() {
    let srv = srvkit::Server::start().expect("server");
    let c = srv.client();
    let mut jar = srvkit::http::Jar::default();
    let r = c.json(&mut jar, "POST", "/users/register", &json!({"username":"u1","password":"pw1"})).unwrap();
    println!("register: {} {}", r.status, r.text());
    let r = c.json(&mut jar, "POST", "/users/login", &json!({"username":"u1","password":"pw1"})).unwrap();
    println!("login: {} {} jar={:?}", r.status, r.text(), jar.cookies.keys().collect::<Vec<_>>());
    let r = c.get(&mut jar, "/users/info").unwrap();
    println!("info: {} {}", r.status, r.text());
    let r = c.multipart(&mut jar, "/adf/add", &[("name","p1"),("code","s(a).s(b).ac(a,neg(b)).ac(b,neg(a))."),("parsing","Hybrid")]).unwrap();
    println!("add: {} {}", r.status, r.text());
    for _ in 0..50 {
        let r = c.get(&mut jar, "/adf/p1").unwrap();
        let v = r.json().unwrap();
        if v["acs_per_strategy"]["parse_only"]["type"] != "None" { println!("get: {} {}", r.status, r.text()); break; }
        std::thread::sleep(std::time::Duration::from_millis(50));
    }
    let r = c.json(&mut jar, "PUT", "/adf/p1/solve", &json!({"strategy":"Complete"})).unwrap();
    println!("solve: {} {}", r.status, r.text());
    std::thread::sleep(std::time::Duration::from_millis(500));
    let r = c.get(&mut jar, "/adf/p1").unwrap();
    println!("get: {} {}", r.status, r.text().chars().take(1500).collect::<String>());
    let r = c.get(&mut jar, "/adf/").unwrap();
    println!("list: {} {}", r.status, r.text().chars().take(300).collect::<String>());
    println!("users in db: {:?}", srv.stub.snapshot("adf-obdd.users"));
    for l in &srv.stub.db.lock().unwrap().log { println!("  db: {:?}", l); }
}
