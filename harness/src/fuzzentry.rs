//! Entry points shared by the cargo-fuzz targets and `vcheck fuzz-replay`: bytes are decoded into
//! structured cases and run through the same oracles as the proptest checks. State is
//! per-iteration (fresh store / parser / nogood store).

use crate::bddmodel::{Op, Program};
use crate::engine::{Outcome, Stats};
use crate::props;
use crate::refparse;

fn ok(r: Result<Outcome, String>) -> Result<(), String> {
    r.map(|_| ())
}

/// C08: any text; the parser must not panic and must agree with the reference recogniser; an
/// accepted text must round-trip at function level through the public Formula values.
pub fn fz_parser(data: &[u8]) -> Result<(), String> {
    let Ok(text) = std::str::from_utf8(data) else {
        return Ok(());
    };
    let reference = refparse::parse(text);
    let lib = props::parser::parser_verdict(text).map_err(|p| format!("parser panicked on {text:?}: {p}"))?;
    match (&reference, lib) {
        (Ok(_), false) => return Err(format!("text of the documented format rejected: {text:?}")),
        (Err(e), true) => return Err(format!("text outside the documented format accepted ({e}): {text:?}")),
        _ => {}
    }
    if let Ok(rp) = reference {
        // function-level agreement of every ac fact with the reference reading
        let parser = adf_bdd::parser::AdfParser::default();
        let _ = parser.parse()(text);
        let names: Vec<String> = parser.var_container().names().read().unwrap().clone();
        if names != rp.statements {
            return Err(format!("statements {names:?} differ from the reference reading {:?}", rp.statements));
        }
        for (i, (_, rf)) in rp.acs.iter().enumerate() {
            let lf = parser.ac_at(i).ok_or("ac_at(i) missing")?;
            let mut atoms = Vec::new();
            rf.atoms(&mut atoms);
            if atoms.len() > 10 {
                continue;
            }
            for bits in 0..(1u32 << atoms.len()) {
                let val = |l: &str| atoms.iter().position(|a| a == l).map(|j| (bits >> j) & 1 == 1).unwrap_or(false);
                if props::parser::eval_lib_formula(&lf, &val) != rf.eval(&val) {
                    return Err(format!("ac fact {i} of {text:?} is read as a different function"));
                }
            }
        }
    }
    Ok(())
}

fn u16_at(d: &[u8], i: usize) -> u16 {
    u16::from_le_bytes([d.get(i).copied().unwrap_or(0), d.get(i + 1).copied().unwrap_or(0)])
}

pub fn decode_program(data: &[u8]) -> Option<(Program, u8)> {
    if data.len() < 2 {
        return None;
    }
    let k = 1 + data[0] % 6;
    let goal = data[1];
    let mut ops = Vec::new();
    for ch in data[2..].chunks(5).take(80) {
        let a = u16_at(ch, 1);
        let b = u16_at(ch, 3);
        ops.push(match ch[0] % 17 {
            0 | 1 => Op::Var(a as u8),
            2 => Op::Const(a & 1 == 1),
            3 => Op::Not(a),
            4 => Op::And(a, b),
            5 => Op::Or(a, b),
            6 => Op::Imp(a, b),
            7 => Op::Iff(a, b),
            8 => Op::Xor(a, b),
            9 | 10 => Op::Restrict(a, b as u8, (b >> 8) & 1 == 1),
            11 => Op::Node(a as u8, b, a.rotate_left(5)),
            12 => Op::Serde,
            13 => Op::Rebuild,
            14 => Op::AdfNodeList,
            15 => Op::AdfSerde,
            _ if a & 1 == 1 => Op::RebuildStream,
            _ => Op::FixImport,
        });
    }
    Some((Program { k, ops, spread: data[1] / 37 }, goal))
}

/// C06 / C07 / C13 (/ C19 without re-materialisations): generated op sequence under all oracles.
pub fn fz_bddops(data: &[u8]) -> Result<(), String> {
    let Some((prog, goal)) = decode_program(data) else {
        return Ok(());
    };
    let mut st = Stats::default();
    ok(props::bdd::run_program(&prog, props::bdd::Focus::Canonical, &mut st))?;
    ok(props::bdd::run_program(&prog, props::bdd::Focus::Function, &mut st))?;
    ok(props::counts::c13_ops_entry(&prog, goal, &mut st))?;
    {
        let plain: Vec<Op> = prog.ops.iter().filter(|o| !matches!(o, Op::Serde | Op::Rebuild | Op::AdfNodeList | Op::AdfSerde | Op::FixImport | Op::SerdeNoFix | Op::RebuildStream | Op::SerdePartialCache(_))).cloned().collect();
        if !plain.is_empty() {
            let sched = data
                .iter()
                .rev()
                .take(10)
                .enumerate()
                .map(|(i, b)| match b % 4 {
                    3 => props::stream::Sched::DropLast,
                    0 => props::stream::Sched::Deliver(b % 5),
                    1 => props::stream::Sched::PollRelay(u16::from_le_bytes([*b, (i as u8).wrapping_mul(31)])),
                    _ => props::stream::Sched::PollRecv(u16::from_le_bytes([*b, (i as u8).wrapping_mul(17)])),
                })
                .collect();
            let case = props::stream::StreamCase {
                prog: Program { k: prog.k, ops: plain, spread: prog.spread },
                chain: data[0] & 0x80 != 0,
                sched,
            };
            ok(props::stream::c19_entry(&case, &mut st))?;
        }
    }
    Ok(())
}

/// C18: nogood history + queries
pub fn fz_nogood(data: &[u8]) -> Result<(), String> {
    use props::nogood::{NgCase, NgOp};
    if data.len() < 3 {
        return Ok(());
    }
    let n = 1 + data[0] % 7;
    let cells = |ch: &[u8]| -> Vec<u8> { (0..n as usize).map(|i| ch.get(i).copied().unwrap_or(2) % 3).collect() };
    let mut ops = Vec::new();
    let mut queries = Vec::new();
    for ch in data[1..].chunks(n as usize + 1).take(24) {
        match ch[0] % 8 {
            0 => ops.push(NgOp::Mode(ch.get(1).copied().unwrap_or(0))),
            1 | 2 => queries.push(cells(&ch[1..])),
            _ => ops.push(NgOp::Add(cells(&ch[1..]))),
        }
    }
    if queries.is_empty() {
        queries.push(vec![2; n as usize]);
    }
    let mut st = Stats::default();
    ok(props::nogood::c18_check(&NgCase { n, ops, queries }, &mut st))
}

pub fn run(target: &str, data: &[u8]) -> Result<(), String> {
    let r = crate::engine::catch(|| match target {
        "fz_parser" => fz_parser(data),
        "fz_bddops" => fz_bddops(data),
        "fz_nogood" => fz_nogood(data),
        other => Err(format!("unknown fuzz target {other}")),
    });
    match r {
        Ok(x) => x,
        Err(p) => Err(format!("panic: {p}")),
    }
}
