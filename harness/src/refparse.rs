//! Reference recogniser for the documented input format, written from the documentation and
//! independent of the library's nom parser (trusted base for C08's "definitely invalid" class).
//!
//! file    := fact+ EOF
//! fact    := ( "s(" label ")" | "ac(" label ws "," ws formula ")" ) "." ws
//! formula := token "(" args ")"      -- only if token is a keyword: c, neg, and, or, imp, iff, xor
//!          | label
//! label   := [A-Za-z0-9]+ | '"' [^"]* '"'
//!
//! Because an alphanumeric label can never be followed by "(", the grammar is deterministic: an
//! alphanumeric token followed by "(" must be an operator application of the right arity.

#[derive(Clone, Debug, PartialEq, Eq)]
pub enum RF {
    Top,
    Bot,
    Atom(String),
    Not(Box<RF>),
    Bin(&'static str, Box<RF>, Box<RF>),
}

pub struct Parsed {
    pub statements: Vec<String>,
    pub acs: Vec<(String, RF)>,
}

struct P<'a> {
    s: &'a [u8],
    i: usize,
}

impl<'a> P<'a> {
    fn peek(&self) -> Option<u8> {
        self.s.get(self.i).copied()
    }
    fn eat(&mut self, c: u8) -> Result<(), String> {
        if self.peek() == Some(c) {
            self.i += 1;
            Ok(())
        } else {
            Err(format!("expected {:?} at byte {}", c as char, self.i))
        }
    }
    fn ws(&mut self) {
        // multispace: blank, tab, CR, LF
        while matches!(self.peek(), Some(b' ') | Some(b'\t') | Some(b'\r') | Some(b'\n')) {
            self.i += 1;
        }
    }
    fn alnum(&mut self) -> Option<&'a str> {
        let st = self.i;
        while matches!(self.peek(), Some(c) if c.is_ascii_alphanumeric()) {
            self.i += 1;
        }
        if self.i > st {
            Some(std::str::from_utf8(&self.s[st..self.i]).unwrap())
        } else {
            None
        }
    }
    fn label(&mut self) -> Result<String, String> {
        if self.peek() == Some(b'"') {
            self.i += 1;
            let st = self.i;
            while let Some(c) = self.peek() {
                if c == b'"' {
                    let l = std::str::from_utf8(&self.s[st..self.i]).map_err(|e| e.to_string())?;
                    self.i += 1;
                    return Ok(l.to_string());
                }
                self.i += 1;
            }
            Err("unterminated quoted label".into())
        } else {
            self.alnum()
                .map(|s| s.to_string())
                .ok_or_else(|| format!("label expected at byte {}", self.i))
        }
    }
    fn formula(&mut self, depth: usize) -> Result<RF, String> {
        if depth > 4000 {
            return Err("nesting too deep".into());
        }
        if self.peek() == Some(b'"') {
            return Ok(RF::Atom(self.label()?));
        }
        let tok = self
            .alnum()
            .ok_or_else(|| format!("formula expected at byte {}", self.i))?;
        if self.peek() != Some(b'(') {
            return Ok(RF::Atom(tok.to_string()));
        }
        self.i += 1; // "("
        let r = match tok {
            "c" => {
                let r = match self.peek() {
                    Some(b'v') => RF::Top,
                    Some(b'f') => RF::Bot,
                    _ => return Err("c(v) or c(f) expected".into()),
                };
                self.i += 1;
                r
            }
            "neg" => RF::Not(Box::new(self.formula(depth + 1)?)),
            "and" | "or" | "imp" | "iff" | "xor" => {
                let a = self.formula(depth + 1)?;
                self.ws();
                self.eat(b',')?;
                self.ws();
                let b = self.formula(depth + 1)?;
                let op: &'static str = match tok {
                    "and" => "and",
                    "or" => "or",
                    "imp" => "imp",
                    "iff" => "iff",
                    _ => "xor",
                };
                RF::Bin(op, Box::new(a), Box::new(b))
            }
            other => return Err(format!("{other:?} is not an operator but is followed by '('")),
        };
        self.eat(b')')?;
        Ok(r)
    }
}

pub fn parse(text: &str) -> Result<Parsed, String> {
    let mut p = P {
        s: text.as_bytes(),
        i: 0,
    };
    let mut out = Parsed {
        statements: Vec::new(),
        acs: Vec::new(),
    };
    let mut facts = 0;
    while p.i < p.s.len() {
        let tok = p.alnum().ok_or_else(|| format!("fact expected at byte {}", p.i))?;
        p.eat(b'(')?;
        match tok {
            "s" => {
                let l = p.label()?;
                if !out.statements.contains(&l) {
                    out.statements.push(l);
                }
            }
            "ac" => {
                let l = p.label()?;
                p.ws();
                p.eat(b',')?;
                p.ws();
                let f = p.formula(0)?;
                out.acs.push((l, f));
            }
            other => return Err(format!("unknown fact {other:?}")),
        }
        p.eat(b')')?;
        p.eat(b'.')?;
        p.ws();
        facts += 1;
    }
    if facts == 0 {
        return Err("no fact".into());
    }
    Ok(out)
}

pub fn accepts(text: &str) -> bool {
    parse(text).is_ok()
}

impl RF {
    pub fn eval(&self, v: &dyn Fn(&str) -> bool) -> bool {
        match self {
            RF::Top => true,
            RF::Bot => false,
            RF::Atom(a) => v(a),
            RF::Not(a) => !a.eval(v),
            RF::Bin(op, a, b) => {
                let (x, y) = (a.eval(v), b.eval(v));
                match *op {
                    "and" => x && y,
                    "or" => x || y,
                    "imp" => !x || y,
                    "iff" => x == y,
                    _ => x != y,
                }
            }
        }
    }
    pub fn atoms(&self, out: &mut Vec<String>) {
        match self {
            RF::Top | RF::Bot => {}
            RF::Atom(a) => {
                if !out.contains(a) {
                    out.push(a.clone())
                }
            }
            RF::Not(a) => a.atoms(out),
            RF::Bin(_, a, b) => {
                a.atoms(out);
                b.atoms(out);
            }
        }
    }
}

#[cfg(test)]
mod test {
    use super::*;
    #[test]
    fn basics() {
        assert!(accepts("s(a).s(b).ac(a,c(v)).ac(b,or(a,b))."));
        assert!(accepts("s(and).ac(and , neg(and)).\n s(c).ac(c,c)."));
        assert!(accepts("s(\"a b\").ac(\"a b\",xor(\"a b\",c(f)))."));
        assert!(!accepts("s(a)"));
        assert!(!accepts("s(a).x"));
        assert!(!accepts("s(a).ac(a,and(a))."));
        assert!(!accepts("s(a).ac(a,neg(a,a))."));
        assert!(!accepts("s(a).ac(a,c())."));
        assert!(!accepts("s(a).ac(a,foo(a))."));
        assert!(!accepts(" s(a)."));
        assert!(!accepts(""));
    }
}
