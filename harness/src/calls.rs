//! Public-API calls on an `Adf` object as data: executor, raw answers, abstraction.
//! Used by C10 (metamorphic), C11 (histories) and C14 (persistence).

use crate::bddmodel::{self, Op, Table};
use crate::oracle::{self, Interp, Oracle};
use crate::sut;
use adf_bdd::adf::heuristics::Heuristic;
use adf_bdd::adf::Adf;
use adf_bdd::datatypes::{Term, Var};
use proptest::prelude::*;
use serde::{Deserialize, Serialize};

#[derive(Clone, Debug, Serialize, Deserialize, PartialEq, Eq, Hash)]
pub enum Call {
    Grounded,
    Complete,
    Stable,
    StablePrefilter,
    CountA,
    CountB,
    /// stable_nogood with built-in heuristic 0..3 (Simple, MinModMinPathsMaxVarImp, MinModMaxVarImpMinPaths)
    StableNg(u8),
    /// two_val_nogood_channel with built-in heuristic
    TwoValNg(u8),
    /// seed() + stable_nogood(Rand)
    StableNgRand(u8),
    FormulaCountsNaive,
    FacetCount,
    /// paths / depth / dependencies of every acceptance condition
    PathQueries,
    /// restrict every acceptance condition by every single statement and value, in ascending or
    /// descending order: creates the restricted diagrams in an order of its own
    PreRestrict(bool),
    /// `Adf::fix_import()` on the live object (the documented repair step; must be harmless when
    /// nothing needs repair)
    FixImport,
    /// extra formulas built on the shared diagram, operands are the acceptance conditions and
    /// variables (interpreted like bddmodel ops on the issued list [bot, top, ac...])
    BddOps(Vec<Op>),
    /// a listener is attached to the object's diagram store (`adf.bdd.set_sender`); with `true` it hangs up at once, so
    /// that every node created from now on is reported to a closed channel (frontend builds only, otherwise a no-op)
    Listener(bool),
}

#[cfg(any(feature = "frontend", not(feature = "probe")))]
thread_local! {
    /// listeners that stay alive (only the most recent ones are kept)
    static LISTENERS: std::cell::RefCell<std::collections::VecDeque<crossbeam_channel::Receiver<adf_bdd::datatypes::BddNode>>> = std::cell::RefCell::new(std::collections::VecDeque::new());
}

impl Call {
    pub fn kind(&self) -> &'static str {
        match self {
            Call::Grounded => "grounded",
            Call::Complete => "complete",
            Call::Stable => "stable",
            Call::StablePrefilter => "stable_prefilter",
            Call::CountA => "count_a",
            Call::CountB => "count_b",
            Call::StableNg(_) => "stable_nogood",
            Call::TwoValNg(_) => "two_val_nogood",
            Call::StableNgRand(_) => "stable_nogood_rand",
            Call::FormulaCountsNaive => "formulacounts",
            Call::FacetCount => "facet_count",
            Call::PathQueries => "path_queries",
            Call::FixImport => "fix_import",
            Call::PreRestrict(_) => "pre_restrict",
            Call::BddOps(_) => "bdd_ops",
            Call::Listener(_) => "listener",
        }
    }
    pub fn is_semantics(&self) -> bool {
        !matches!(
            self,
            Call::FormulaCountsNaive | Call::FacetCount | Call::PathQueries | Call::BddOps(_) | Call::FixImport | Call::PreRestrict(_) | Call::Listener(_)
        )
    }
}

pub fn call_strategy(with_bdd_ops: bool) -> BoxedStrategy<Call> {
    let base = prop_oneof![
        3 => Just(Call::Grounded),
        3 => Just(Call::Complete),
        3 => Just(Call::Stable),
        2 => Just(Call::StablePrefilter),
        3 => Just(Call::CountA),
        3 => Just(Call::CountB),
        3 => (0u8..3).prop_map(Call::StableNg),
        2 => (0u8..3).prop_map(Call::TwoValNg),
        2 => any::<u8>().prop_map(Call::StableNgRand),
        1 => Just(Call::FormulaCountsNaive),
        1 => Just(Call::FacetCount),
        2 => Just(Call::PathQueries),
        1 => Just(Call::FixImport),
        2 => any::<bool>().prop_map(Call::PreRestrict),
        1 => proptest::bool::weighted(0.7).prop_map(Call::Listener),
    ];
    if with_bdd_ops {
        prop_oneof![
            12 => base,
            3 => proptest::collection::vec(bddmodel::op_strategy(false), 1..8).prop_map(Call::BddOps),
        ]
        .boxed()
    } else {
        base.boxed()
    }
}

/// Raw answer, exactly as returned (handles included).
#[derive(Clone, Debug, PartialEq, Eq)]
pub enum Raw {
    Interps(Vec<Vec<usize>>),
    Numbers(Vec<Vec<u128>>),
    /// results of BddOps: (handle, truth table) per op
    Handles(Vec<(usize, Table)>),
}

/// History-independent view of an answer.
#[derive(Clone, Debug, PartialEq, Eq, PartialOrd, Ord)]
pub enum Abs {
    /// interpretations in library order, T/F/u; `ordered` answers keep their order
    Interps(Vec<Interp>),
    Numbers(Vec<Vec<u128>>),
    Tables(Vec<Table>),
}

fn builtin(h: u8) -> Heuristic<'static> {
    match h % 3 {
        0 => Heuristic::Simple,
        1 => Heuristic::MinModMinPathsMaxVarImp,
        _ => Heuristic::MinModMaxVarImpMinPaths,
    }
}

fn raw_interps(v: Vec<Vec<Term>>) -> Raw {
    Raw::Interps(v.into_iter().map(|i| i.into_iter().map(|t| t.value()).collect()).collect())
}

pub fn exec(adf: &mut Adf, call: &Call) -> Result<Raw, String> {
    let n = adf.ac.len();
    Ok(match call {
        Call::Grounded => raw_interps(vec![adf.grounded()]),
        Call::Complete => raw_interps(adf.complete().collect()),
        Call::Stable => raw_interps(adf.stable().collect()),
        Call::StablePrefilter => raw_interps(adf.stable_with_prefilter().collect()),
        Call::CountA => raw_interps(adf.stable_count_optimisation_heu_a().collect()),
        Call::CountB => raw_interps(adf.stable_count_optimisation_heu_b().collect()),
        Call::StableNg(h) => raw_interps(adf.stable_nogood(builtin(*h)).collect()),
        Call::TwoValNg(h) => {
            let (s, r) = crossbeam_channel::unbounded();
            adf.two_val_nogood_channel(builtin(*h), s);
            raw_interps(r.try_iter().collect())
        }
        Call::StableNgRand(seed) => {
            adf.seed([*seed; 32]);
            raw_interps(adf.stable_nogood(Heuristic::Rand).collect())
        }
        Call::FormulaCountsNaive => Raw::Numbers(
            adf.formulacounts(false)
                .iter()
                .map(|m| {
                    // reduce to lowest terms: the absolute scale depends on the diagram's depth only
                    let g = gcd(m.models as u128, m.cmodels as u128).max(1);
                    vec![m.models as u128 / g, m.cmodels as u128 / g]
                })
                .collect(),
        ),
        Call::FacetCount => {
            let g = adf.grounded();
            Raw::Numbers(
                adf.facet_count(&g)
                    .iter()
                    .map(|(m, (cf, f))| vec![m.models as u128, m.cmodels as u128, *cf as u128, *f as u128])
                    .collect(),
            )
        }
        Call::PathQueries => Raw::Numbers(
            adf.ac
                .iter()
                .map(|t| {
                    let p = adf.bdd.paths(*t, true);
                    let mut deps: Vec<u128> = adf.bdd.var_dependencies(*t).into_iter().map(|v| v.value() as u128).collect();
                    deps.sort();
                    let mut v = vec![p.models as u128, p.cmodels as u128, adf.bdd.max_depth(*t) as u128];
                    v.extend(deps);
                    v
                })
                .collect(),
        ),
        Call::FixImport => {
            adf.fix_import();
            Raw::Numbers(vec![])
        }
        Call::Listener(hang_up) => {
            #[cfg(any(feature = "frontend", not(feature = "probe")))]
            {
                let (s, r) = crossbeam_channel::unbounded();
                adf.bdd.set_sender(s);
                if !*hang_up {
                    LISTENERS.with(|l| {
                        let mut l = l.borrow_mut();
                        l.push_back(r);
                        if l.len() > 32 {
                            l.pop_front();
                        }
                    });
                }
            }
            let _ = hang_up;
            Raw::Numbers(vec![])
        }
        Call::PreRestrict(desc) => {
            let acs = adf.ac.clone();
            let mut order: Vec<(usize, usize, bool)> = Vec::new();
            for (i, _) in acs.iter().enumerate() {
                for v in 0..n {
                    for val in [false, true] {
                        order.push((i, v, val));
                    }
                }
            }
            if *desc {
                order.reverse();
            }
            let mut tables = Vec::new();
            for (i, v, val) in order {
                let r = adf.bdd.restrict(acs[i], Var(v), val);
                // second level: restricted once more by the next statement
                let r2 = adf.bdd.restrict(r, Var((v + 1) % n.max(1)), !val);
                if n <= 10 {
                    tables.push((r2.value(), sut::table_of(&adf.bdd, r2, n)?));
                }
            }
            Raw::Handles(tables)
        }
        Call::BddOps(ops) => {
            // issued list: bot, top, acceptance conditions
            let mut issued: Vec<Term> = vec![Term::BOT, Term::TOP];
            issued.extend(adf.ac.iter().copied());
            let mut out = Vec::new();
            for op in ops {
                let pick = |i: u16, l: &Vec<Term>| l[crate::gen::pick(i, l.len())];
                let r = match op {
                    Op::Var(v) => adf.bdd.variable(Var(*v as usize % n.max(1))),
                    Op::Const(b) => Term::from(*b),
                    Op::Not(a) => {
                        let a = pick(*a, &issued);
                        adf.bdd.not(a)
                    }
                    Op::And(a, b) => {
                        let (a, b) = (pick(*a, &issued), pick(*b, &issued));
                        adf.bdd.and(a, b)
                    }
                    Op::Or(a, b) => {
                        let (a, b) = (pick(*a, &issued), pick(*b, &issued));
                        adf.bdd.or(a, b)
                    }
                    Op::Imp(a, b) => {
                        let (a, b) = (pick(*a, &issued), pick(*b, &issued));
                        adf.bdd.imp(a, b)
                    }
                    Op::Iff(a, b) => {
                        let (a, b) = (pick(*a, &issued), pick(*b, &issued));
                        adf.bdd.iff(a, b)
                    }
                    Op::Xor(a, b) => {
                        let (a, b) = (pick(*a, &issued), pick(*b, &issued));
                        adf.bdd.xor(a, b)
                    }
                    Op::Restrict(a, v, val) => {
                        let a = pick(*a, &issued);
                        adf.bdd.restrict(a, Var(*v as usize % n.max(1)), *val)
                    }
                    Op::Node(..) | Op::Serde | Op::Rebuild | Op::AdfNodeList | Op::AdfSerde | Op::FixImport | Op::SerdeNoFix | Op::RebuildStream | Op::SerdePartialCache(_) => continue,
                };
                if n <= 10 {
                    out.push((r.value(), sut::table_of(&adf.bdd, r, n)?));
                } else {
                    out.push((r.value(), Vec::new()));
                }
                issued.push(r);
            }
            Raw::Handles(out)
        }
    })
}

fn gcd(a: u128, b: u128) -> u128 {
    if b == 0 {
        a
    } else {
        gcd(b, a % b)
    }
}

pub fn abstract_raw(r: &Raw, sort: bool) -> Abs {
    match r {
        Raw::Interps(v) => {
            let mut a: Vec<Interp> = v
                .iter()
                .map(|i| i.iter().map(|&t| sut::tv(Term(t))).collect())
                .collect();
            if sort {
                a.sort();
            }
            Abs::Interps(a)
        }
        Raw::Numbers(n) => Abs::Numbers(n.clone()),
        Raw::Handles(h) => Abs::Tables(h.iter().map(|x| x.1.clone()).collect()),
    }
}

/// Expected abstract answer of a semantics call from the definitional oracle, in *logical* order
/// (only for n <= 7); None for non-semantics calls.
pub fn expected_logical(acs: &[crate::formula::F], call: &Call) -> Option<Vec<Interp>> {
    if acs.len() > 7 {
        return None;
    }
    let o = Oracle::new(acs);
    let mut e = match call {
        Call::Grounded => vec![o.grounded().0],
        Call::Complete => o.complete(),
        Call::Stable | Call::StablePrefilter | Call::CountA | Call::CountB | Call::StableNg(_) | Call::StableNgRand(_) => {
            oracle::stable(acs)
        }
        Call::TwoValNg(_) => o.two_valued(),
        _ => return None,
    };
    e.sort();
    Some(e)
}
