//! C17, part `paused`: the harness owns the schedule at database-command granularity. One request
//! (the victim) is paused between two of its database commands — the MongoDB stub sees every
//! command and holds it until released — while other persons run whole requests; then the victim
//! continues. Only model-free invariants are checked (valid under any linearisation).

use crate::engine::*;
use crate::props::users::{step_strategy, Step, PROBLEM_NAMES};
use crate::props::web::{Strat, STRATEGIES};
use crate::srvkit::http::{Client, Jar, Response};
use crate::srvkit::Server;
use proptest::prelude::*;
use serde::{Deserialize, Serialize};
use serde_json::json;
use std::collections::BTreeSet;
use std::sync::atomic::{AtomicBool, AtomicU64, Ordering};
use std::sync::{Arc, Mutex, OnceLock};
use std::time::{Duration, Instant};

static SERVER: OnceLock<Result<Server, String>> = OnceLock::new();
static SERIAL: Mutex<()> = Mutex::new(());
static RUN: AtomicU64 = AtomicU64::new(0);

fn server() -> Result<&'static Server, String> {
    match SERVER.get_or_init(Server::start) {
        Ok(s) => Ok(s),
        Err(e) => Err(format!("INCONCLUSIVE: cannot start the server harness: {e}")),
    }
}

#[derive(Clone, Debug, Serialize, Deserialize)]
pub struct PausedCase {
    pub setup: Vec<Step>,
    pub victim: Step,
    pub pause_after: u8,
    pub intruder: Vec<Step>,
    /// directed take-over: while the victim is paused, this person (if not the victim) first tries to
    /// register the account name the victim held before its request, logs in, lists and adds
    #[serde(default)]
    pub takeover: Option<u8>,
}

/// what a person observably controls, derived only from its own successful responses
struct Obs {
    pre: String,
    controls: Vec<BTreeSet<String>>,
    session: Vec<Option<String>>,
    counter: u64,
}

impl Obs {
    fn uname(&self, u: u8) -> String {
        format!("{}{}", self.pre, ["ua", "ub ", "uc"][(u % 3) as usize])
    }
    fn pw(&self, p: usize, w: u8) -> String {
        match w % 4 {
            0 | 2 => format!("Secret-{}-{p}-alpha", self.pre),
            1 => format!("Secret-{}-{p}-beta", self.pre),
            _ => String::new(),
        }
    }
    fn marker(&self, p: usize) -> String {
        format!("{}m{p}x", self.pre)
    }
}

fn ok(r: &Response) -> bool {
    (200..300).contains(&r.status)
}

fn check_markers(o: &Obs, p: usize, r: &Response, what: &str) -> Result<(), String> {
    let body = r.text();
    for other in 0..3 {
        if other != p && body.contains(&o.marker(other)) {
            return Err(format!(
                "{what}: the response to person {p} contains data of person {other}: {}",
                body.chars().take(300).collect::<String>()
            ));
        }
    }
    Ok(())
}

/// perform one step observationally: no expectation about the status, only bookkeeping of what
/// the person learned from its own responses, and the marker invariant
fn perform(o: &mut Obs, cl: &Client, jar: &mut Jar, step: &Step, p: usize) -> Result<(), String> {
    perform_on(o, cl, jar, step, p, p)
}

/// as `perform`; `sess` = index of the session (cookie jar) used: a person may hold several
fn perform_on(o: &mut Obs, cl: &Client, jar: &mut Jar, step: &Step, p: usize, sess: usize) -> Result<(), String> {
    let what = format!("{step:?} (person {p}{})", if sess != p { ", second session" } else { "" });
    match step {
        Step::Register { u, w, .. } => {
            let (un, pw) = (o.uname(*u), o.pw(p, *w));
            let r = cl.json(jar, "POST", "/users/register", &json!({"username": un, "password": pw}))?;
            check_markers(o, p, &r, &what)?;
            if ok(&r) {
                o.controls[p].insert(un);
            }
        }
        Step::Login { u, w, .. } => {
            let (un, pw) = (o.uname(*u), o.pw(p, *w));
            let r = cl.json(jar, "POST", "/users/login", &json!({"username": un, "password": pw}))?;
            check_markers(o, p, &r, &what)?;
            if ok(&r) {
                if !o.controls[p].contains(&un) {
                    return Err(format!("{what}: person {p} could log into account {un:?}, which it does not control"));
                }
                o.session[sess] = Some(un);
            }
        }
        Step::Logout { .. } => {
            let r = cl.delete(jar, "/users/logout")?;
            if ok(&r) {
                o.session[sess] = None;
            }
        }
        Step::Update { u, w, .. } => {
            let (un, pw) = (o.uname(*u), o.pw(p, *w));
            let r = cl.json(jar, "PUT", "/users/update", &json!({"username": un, "password": pw}))?;
            check_markers(o, p, &r, &what)?;
            if ok(&r) {
                if let Some(old) = o.session[sess].take() {
                    o.controls[p].remove(&old);
                }
                o.controls[p].insert(un.clone());
                o.session[sess] = Some(un);
            }
        }
        Step::DeleteAccount { .. } => {
            let r = cl.delete(jar, "/users/delete")?;
            if ok(&r) {
                if let Some(old) = o.session[sess].take() {
                    o.controls[p].remove(&old);
                }
            }
        }
        Step::Info { .. } => {
            let r = cl.get(jar, "/users/info")?;
            check_markers(o, p, &r, &what)?;
        }
        Step::Add { name, hybrid, .. } => {
            let pname = if *name % 4 == 3 { String::new() } else { PROBLEM_NAMES[(*name % 4) as usize].to_string() };
            o.counter += 1;
            let m = format!("{}{}", o.marker(p), o.counter);
            let code = format!("s({m}).ac({m},c(v)).s(a).ac(a,neg(a)).");
            let anonymous = o.session[sess].is_none();
            let r = cl.multipart(jar, "/adf/add", &[("name", &pname), ("code", &code), ("parsing", if *hybrid { "Hybrid" } else { "Naive" })])?;
            check_markers(o, p, &r, &what)?;
            if ok(&r) && anonymous {
                let info = cl.get(jar, "/users/info")?;
                if info.status == 200 {
                    if let Some(t) = info.json()?["username"].as_str() {
                        o.controls[p].insert(t.to_string());
                        o.session[sess] = Some(t.to_string());
                    }
                }
            }
        }
        Step::Solve { name, strat, .. } => {
            let pname = PROBLEM_NAMES[(*name % 3) as usize];
            let s: Strat = STRATEGIES[(*strat as usize) % STRATEGIES.len()];
            let r = cl.json(jar, "PUT", &format!("/adf/{pname}/solve"), &json!({"strategy": s.name()}))?;
            check_markers(o, p, &r, &what)?;
        }
        Step::Get { name, .. } => {
            let pname = PROBLEM_NAMES[(*name % 3) as usize];
            let r = cl.get(jar, &format!("/adf/{pname}"))?;
            check_markers(o, p, &r, &what)?;
        }
        Step::List { .. } => {
            let r = cl.get(jar, "/adf/")?;
            check_markers(o, p, &r, &what)?;
        }
        Step::DeleteProblem { name, .. } => {
            let pname = PROBLEM_NAMES[(*name % 3) as usize];
            let r = cl.delete(jar, &format!("/adf/{pname}"))?;
            check_markers(o, p, &r, &what)?;
        }
        Step::SlowSolve { .. } => {}
    }
    Ok(())
}

fn db_invariants(o: &Obs, srv: &Server, after: &str) -> Result<(), String> {
    let users = srv.stub.snapshot("adf-obdd.users");
    let mut names = BTreeSet::new();
    for d in &users {
        let u = d.get_str("username").unwrap_or("").to_string();
        if !names.insert(u.clone()) {
            return Err(format!("{after}: two user documents with username {u:?}"));
        }
    }
    for d in srv.stub.snapshot("adf-obdd.adf-problems") {
        let code = d.get_str("code").unwrap_or("");
        if !code.contains(&o.pre) {
            continue;
        }
        let uname = d.get_str("username").unwrap_or("").to_string();
        for q in 0..3 {
            if code.contains(&o.marker(q)) && !o.controls[q].contains(&uname) {
                let who: Vec<usize> = (0..3).filter(|x| o.controls[*x].contains(&uname)).collect();
                return Err(format!(
                    "{after}: a problem created by person {q} (code {code:?}) is stored under account {uname:?}, which person {q} does not control (controlled by persons {who:?})"
                ));
            }
        }
    }
    Ok(())
}

fn paused_check(c: &PausedCase, st: &mut Stats) -> CheckResult {
    let _serial = SERIAL.lock().unwrap_or_else(|e| e.into_inner());
    let srv = server()?;
    let cl = srv.client();
    let run = RUN.fetch_add(1, Ordering::SeqCst);
    let mut o = Obs {
        pre: format!("c17p{}x{}q", std::process::id(), run),
        controls: vec![BTreeSet::new(), BTreeSet::new(), BTreeSet::new()],
        session: vec![None, None, None, None, None, None],
        counter: 0,
    };
    let mut jars = vec![Jar::default(), Jar::default(), Jar::default()];
    srv.stub.set_gating(false);
    // 1. sequential set-up
    for s in &c.setup {
        let p = s.person() % 3;
        perform(&mut o, &cl, &mut jars[p], s, p)?;
    }
    // let background parse tasks of the set-up finish (no database command for 60 ms)
    let tq = Instant::now();
    let mut last = (srv.stub.command_count(), Instant::now());
    while tq.elapsed() < Duration::from_secs(5) {
        let c = srv.stub.command_count();
        if c != last.0 {
            last = (c, Instant::now());
        } else if last.1.elapsed() > Duration::from_millis(60) {
            break;
        }
        std::thread::sleep(Duration::from_millis(5));
    }
    db_invariants(&o, srv, "after the sequential set-up")?;
    // 2. the victim request runs in its own thread with gating on
    let vp = c.victim.person() % 3;
    let victim_jar = std::mem::take(&mut jars[vp]);
    let victim_step = c.victim.clone();
    let vobs = Obs {
        pre: o.pre.clone(),
        controls: o.controls.clone(),
        session: o.session.clone(),
        counter: o.counter + 1000,
    };
    srv.stub.set_gating(true);
    let done = Arc::new(AtomicBool::new(false));
    let done2 = done.clone();
    let vcl = srv.client();
    let handle = std::thread::spawn(move || {
        let mut jar = victim_jar;
        let mut ob = vobs;
        let r = perform(&mut ob, &vcl, &mut jar, &victim_step, vp);
        done2.store(true, Ordering::SeqCst);
        (r, jar, ob)
    });
    // let `pause_after` database commands of the victim through
    let mut let_through = 0u8;
    let mut held: Option<u64> = None;
    let mut held_desc = String::new();
    let t0 = Instant::now();
    loop {
        if done.load(Ordering::SeqCst) {
            break;
        }
        let pend = srv.stub.pending();
        if let Some((ticket, desc)) = pend.first() {
            if let_through < c.pause_after % 5 {
                srv.stub.release(*ticket);
                let_through += 1;
                // wait until it is gone from the pending list
                let t1 = Instant::now();
                while srv.stub.pending().iter().any(|p| p.0 == *ticket) && t1.elapsed() < Duration::from_secs(5) {
                    std::thread::sleep(Duration::from_micros(200));
                }
            } else {
                held = Some(*ticket);
                held_desc = desc.clone();
                break;
            }
        }
        if t0.elapsed() > Duration::from_secs(20) {
            break;
        }
        std::thread::sleep(Duration::from_micros(200));
    }
    // 3. intruders run whole requests while the victim is paused; their commands are released at once
    let stop = Arc::new(AtomicBool::new(false));
    let releaser = {
        let stub = srv.stub.share();
        let stop = stop.clone();
        std::thread::spawn(move || {
            while !stop.load(Ordering::SeqCst) {
                for (t, _) in stub.pending() {
                    if Some(t) != held {
                        stub.release(t);
                    }
                }
                std::thread::sleep(Duration::from_micros(200));
            }
        })
    };
    let mut res: Result<(), String> = Ok(());
    let paused = held.is_some();
    let mut intruder_steps: Vec<Step> = Vec::new();
    if let (Some(tp), Some(old)) = (c.takeover, o.session[vp].clone()) {
        let tp = if tp as usize % 3 == vp { (tp + 1) % 3 } else { tp % 3 };
        // pool index of the victim's name before the request (temporary names are not in the pool)
        if let Some(u) = (0u8..3).find(|u| o.uname(*u) == old) {
            intruder_steps.extend([
                Step::Register { p: tp, u, w: 0 },
                Step::Login { p: tp, u, w: 0 },
                Step::List { p: tp },
                Step::Add { p: tp, name: 1, hybrid: false },
                Step::Get { p: tp, name: 0 },
            ]);
        }
    }
    // directed registration race: while a registration (or a rename) is held, another person registers the same name
    if let (Some(tp), Step::Register { u, .. } | Step::Update { u, .. }) = (c.takeover, &c.victim) {
        let tp = if tp as usize % 3 == vp { (tp + 1) % 3 } else { tp % 3 };
        if matches!(c.victim, Step::Register { .. }) || c.intruder.len() % 2 == 0 {
            intruder_steps.extend([Step::Register { p: tp, u: *u, w: 0 }, Step::Login { p: tp, u: *u, w: 0 }, Step::Add { p: tp, name: 2, hybrid: false }]);
        }
    }
    intruder_steps.extend(c.intruder.iter().cloned());
    for s in &intruder_steps {
        let mut p = s.person() % 3;
        if p == vp {
            p = (p + 1) % 3;
        }
        if let Err(e) = perform(&mut o, &cl, &mut jars[p], s, p) {
            res = Err(format!("while {:?} of person {vp} is paused after {let_through} database command(s): {e}", c.victim));
            break;
        }
    }
    // 4. the victim continues
    stop.store(true, Ordering::SeqCst);
    let _ = releaser.join();
    srv.stub.set_gating(false);
    let (vres, vjar, vob) = handle.join().map_err(|_| "victim thread panicked".to_string())?;
    jars[vp] = vjar;
    // merge what the victim learned
    o.controls[vp] = vob.controls[vp].clone();
    o.session[vp] = vob.session[vp].clone();
    // open finding K4: a rename is not atomic. Exactly this configuration is tolerated: the victim is an
    // update (rename) held right before it moves its problems (`update adf-problems`), and the
    // violation is a leak / misplacement between the victim and an intruder.
    let k4_config = matches!(c.victim, Step::Update { .. }) && held_desc.starts_with("update adf-problems");
    let classify = |e: String| -> CheckResult {
        if k4_config && (e.contains("contains data of person") || e.contains("does not control")) {
            crate::known::known_or_fail("K4-rename-not-atomic", e)
        } else {
            Err(e)
        }
    };
    if let Err(e) = res {
        return classify(e);
    }
    if let Err(e) = vres {
        return classify(e);
    }
    // 5. aftermath
    let after = format!(
        "after {:?} of person {vp} was paused after {let_through} database command(s) while {:?} ran",
        c.victim,
        intruder_steps
    );
    for p in 0..3 {
        let l = cl.get(&mut jars[p], "/adf/")?;
        if let Err(e) = check_markers(&o, p, &l, &after) {
            return classify(e);
        }
        let i = cl.get(&mut jars[p], "/users/info")?;
        check_markers(&o, p, &i, &after)?;
    }
    if let Err(e) = db_invariants(&o, srv, &after) {
        return classify(e);
    }
    // credentials: with its own (person-specific) passwords a person gets into exactly the pool accounts it controls
    let probe_names: Vec<u8> = match &c.victim {
        Step::Register { u, .. } | Step::Update { u, .. } => vec![*u],
        _ => Vec::new(),
    };
    for p in 0..3 {
        for &u in &probe_names {
            let un = o.uname(u);
            let mut works = false;
            for w in 0u8..2 {
                let mut scratch = Jar::default();
                let r = cl.json(&mut scratch, "POST", "/users/login", &json!({"username": un, "password": o.pw(p, w)}))?;
                if ok(&r) {
                    works = true;
                    let _ = cl.delete(&mut scratch, "/users/logout");
                }
            }
            if works && !o.controls[p].contains(&un) {
                return classify(format!("{after}: person {p} can log into account {un:?} with its own password although every request by which it could have obtained the account was refused or undone (controlled by {:?})",
                    (0..3).filter(|q| o.controls[*q].contains(&un)).collect::<Vec<_>>()));
            }
            let exists = srv.stub.snapshot("adf-obdd.users").iter().any(|d| d.get_str("username") == Ok(un.as_str()));
            let sole = (0..3).filter(|q| o.controls[*q].contains(&un)).count() == 1;
            if !works && exists && sole && o.controls[p].contains(&un) && !k4_config {
                // (an account set up with the empty password is not probed)
                let empty_pw_possible = c.setup.iter().chain(intruder_steps.iter()).chain(std::iter::once(&c.victim)).any(|s| match s {
                    Step::Register { w, .. } | Step::Update { w, .. } => w % 4 == 3,
                    _ => false,
                });
                if !empty_pw_possible {
                    return Err(format!("{after}: person {p} was told it owns account {un:?} (and nobody else was) but none of its passwords is accepted"));
                }
            }
        }
    }
    st.count("paused_requests", paused as u64);
    if paused {
        st.label(&format!("paused:{}", match c.victim {
            Step::Update { .. } => "update",
            Step::DeleteAccount { .. } => "delete-account",
            Step::Add { .. } => "add",
            Step::Register { .. } => "register",
            Step::DeleteProblem { .. } => "delete-problem",
            _ => "other",
        }));
        st.nontrivial(stable_hash(&format!("{c:?}")), || json!({"setup": c.setup.iter().map(|s| format!("{s:?}")).collect::<Vec<_>>(),
            "victim": format!("{:?}", c.victim), "paused_after_db_commands": let_through,
            "intruder": intruder_steps.iter().map(|s| format!("{s:?}")).collect::<Vec<_>>()}));
    }
    Ok(Outcome::Ok)
}

/// A person may be logged in on two devices. Case: steps with a device bit.
#[derive(Clone, Debug, Serialize, Deserialize)]
pub struct TwoSessionCase {
    pub steps: Vec<(Step, bool)>,
}

/// Sequential histories in which persons use two sessions each. Model-free invariants only (marker invariant on every
/// response, ownership of every stored problem). Open finding K6: the identity cookie is stateless, so a session
/// survives the deletion / renaming of its account done through the person's other session.
fn two_session_check(c: &TwoSessionCase, st: &mut Stats) -> CheckResult {
    let _serial = SERIAL.lock().unwrap_or_else(|e| e.into_inner());
    let srv = server()?;
    let cl = srv.client();
    let run = RUN.fetch_add(1, Ordering::SeqCst);
    let mut o = Obs {
        pre: format!("c17s{}x{}q", std::process::id(), run),
        controls: vec![BTreeSet::new(), BTreeSet::new(), BTreeSet::new()],
        session: vec![None, None, None, None, None, None],
        counter: 0,
    };
    srv.stub.set_gating(false);
    let mut jars: Vec<Jar> = (0..6).map(|_| Jar::default()).collect();
    // a session is stale when it names an account its person gave up (deleted / renamed) through the other session
    let mut used_stale = false;
    let mut second_used = 0usize;
    let mut failure: Option<String> = None;
    for (i, (step, second)) in c.steps.iter().enumerate() {
        let p = step.person() % 3;
        let sess = if *second { p + 3 } else { p };
        if let Some(name) = &o.session[sess] {
            if !o.controls[p].contains(name) {
                used_stale = true;
            }
        }
        second_used += *second as usize;
        // problems of the OTHER persons (by marker) before the request: a request of p may not delete or move them
        let foreign = |o: &Obs| -> Vec<(String, String, String)> {
            let mut v: Vec<(String, String, String)> = srv
                .stub
                .snapshot("adf-obdd.adf-problems")
                .iter()
                .filter_map(|d| {
                    let code = d.get_str("code").unwrap_or("").to_string();
                    let other = (0..3).any(|q| q != p && code.contains(&o.marker(q)));
                    if other && code.contains(&o.pre) {
                        Some((code, d.get_str("name").unwrap_or("").to_string(), d.get_str("username").unwrap_or("").to_string()))
                    } else {
                        None
                    }
                })
                .collect();
            v.sort();
            v
        };
        let before = foreign(&o);
        if let Err(e) = perform_on(&mut o, &cl, &mut jars[sess], step, p, sess) {
            failure = Some(format!("step {i}: {e}"));
            break;
        }
        let after = foreign(&o);
        if let Some(lost) = before.iter().find(|b| !after.contains(b)) {
            failure = Some(format!(
                "step {i} {step:?} of person {p}{}: a problem of another person (name {:?}, account {:?}, code {:?}) was deleted or moved by this request",
                if *second { " (second session)" } else { "" },
                lost.1,
                lost.2,
                lost.0
            ));
            break;
        }
        if let Err(e) = db_invariants(&o, srv, &format!("after step {i} {step:?}{}", if *second { " (second session)" } else { "" })) {
            failure = Some(e);
            break;
        }
    }
    if let Some(e) = failure {
        if used_stale && (e.contains("contains data of person") || e.contains("does not control") || e.contains("could log into account") || e.contains("was deleted or moved by this request")) {
            return crate::known::known_or_fail("K6-stale-session", e);
        }
        return Err(e);
    }
    if second_used > 0 {
        st.label(if used_stale { "second-session:used-after-its-account-was-given-up" } else { "second-session:fresh" });
        st.nontrivial(stable_hash(&format!("{c:?}")), || json!({"steps": c.steps.iter().map(|(s, d)| format!("{s:?}{}", if *d { " [2nd session]" } else { "" })).collect::<Vec<_>>()}));
    }
    Ok(Outcome::Ok)
}

pub fn two_session_part(tier: Tier) -> Box<dyn DynPart> {
    Part::with_shrink(
        "second-session",
        tier.pick(120, 1500),
        60,
        || {
            let free = proptest::collection::vec((step_strategy(), proptest::bool::weighted(0.35)), 4..16);
            // directed: p is logged in twice, gives the account up on the first session, q takes the name, p's second session goes on
            let directed = (0u8..3, 0u8..3, 0u8..3, any::<bool>(), proptest::collection::vec((step_strategy(), proptest::bool::weighted(0.5)), 0..5)).prop_map(|(p, q, u, rename, tail)| {
                let q = if q == p { (q + 1) % 3 } else { q };
                let mut v = vec![
                    (Step::Register { p, u, w: 0 }, false),
                    (Step::Login { p, u, w: 0 }, false),
                    (Step::Login { p, u, w: 0 }, true),
                    (Step::Add { p, name: 0, hybrid: false }, false),
                    (if rename { Step::Update { p, u: (u + 1) % 3, w: 0 } } else { Step::DeleteAccount { p } }, false),
                    (Step::Register { p: q, u, w: 0 }, false),
                    (Step::Login { p: q, u, w: 0 }, false),
                    (Step::Add { p: q, name: 1, hybrid: false }, false),
                    (Step::List { p }, true),
                    (Step::Get { p, name: 1 }, true),
                    (Step::Add { p, name: 2, hybrid: false }, true),
                    (Step::List { p: q }, false),
                    (Step::DeleteProblem { p, name: 1 }, true),
                    (Step::List { p: q }, false),
                ];
                v.extend(tail);
                v
            });
            prop_oneof![2 => free, 1 => directed].prop_map(|steps| TwoSessionCase { steps }).boxed()
        },
        two_session_check,
    )
}

pub fn paused_part(tier: Tier) -> Box<dyn DynPart> {
    Part::with_shrink(
        "paused",
        tier.pick(400, 4000),
        60,
        || {
            let victim = prop_oneof![
                4 => (0u8..3, 0u8..3, 0u8..2).prop_map(|(p, u, w)| Step::Update { p, u, w }),
                2 => (0u8..3).prop_map(|p| Step::DeleteAccount { p }),
                2 => (0u8..3, 0u8..4, any::<bool>()).prop_map(|(p, name, hybrid)| Step::Add { p, name, hybrid }),
                3 => (0u8..3, 0u8..3, 0u8..2).prop_map(|(p, u, w)| Step::Register { p, u, w }),
                1 => (0u8..3, 0u8..3).prop_map(|(p, name)| Step::DeleteProblem { p, name }),
            ];
            (
                proptest::collection::vec(step_strategy(), 3..12),
                victim,
                0u8..5,
                prop_oneof![
                    2 => proptest::collection::vec(step_strategy(), 1..6),
                    // take-over template: register a (possibly just freed) name, log in, use it
                    1 => (0u8..3, 0u8..3, 0u8..4, proptest::collection::vec(step_strategy(), 0..3)).prop_map(|(p, u, name, mut tail)| {
                        let mut v = vec![
                            Step::Register { p, u, w: 0 },
                            Step::Login { p, u, w: 0 },
                            Step::List { p },
                            Step::Add { p, name, hybrid: false },
                        ];
                        v.append(&mut tail);
                        v
                    }),
                ],
            )
                .prop_map(|(setup, victim, pause_after, intruder)| {
                    // half of the cases are directed take-overs (the person is derived from the pause point)
                    let takeover = if setup.len() % 2 == 0 { Some(pause_after.wrapping_add(setup.len() as u8)) } else { None };
                    PausedCase { setup, victim, pause_after, intruder, takeover }
                })
                .boxed()
        },
        paused_check,
    )
}
