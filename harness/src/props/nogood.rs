//! C18: nogood store — sound deductions, no spurious conflicts, nothing forgotten.

use crate::engine::*;
use adf_bdd::datatypes::Term;
use adf_bdd::nogoods::{DuplicateElemination, NoGood, NoGoodStore};
use proptest::prelude::*;
use serde::{Deserialize, Serialize};
use serde_json::json;

/// partial assignment: 0 = false, 1 = true, 2 = unassigned
pub type Partial = Vec<u8>;

#[derive(Clone, Debug, Serialize, Deserialize, PartialEq, Eq, Hash)]
pub enum NgOp {
    Mode(u8),
    Add(Partial),
}

#[derive(Clone, Debug, Serialize, Deserialize, PartialEq, Eq, Hash)]
pub struct NgCase {
    pub n: u8,
    pub ops: Vec<NgOp>,
    pub queries: Vec<Partial>,
}

pub fn terms(p: &[u8]) -> Vec<Term> {
    p.iter()
        .enumerate()
        .map(|(i, &x)| match x {
            0 => Term::BOT,
            1 => Term::TOP,
            _ => Term(2 + i),
        })
        .collect()
}

fn matches(ng: &[u8], total: u32) -> bool {
    ng.iter()
        .enumerate()
        .all(|(i, &x)| x == 2 || (x == 1) == ((total >> i) & 1 == 1))
}
fn extends(total: u32, p: &[u8]) -> bool {
    matches(p, total)
}
fn contained(ng: &[u8], interp: &[u8]) -> bool {
    ng.iter().zip(interp).all(|(&g, &i)| g == 2 || g == i)
}
fn show(p: &[u8]) -> String {
    p.iter()
        .map(|x| match x {
            0 => 'F',
            1 => 'T',
            _ => '-',
        })
        .collect()
}

/// read a NoGood/Interpretation back through the public API
fn read_back(ng: &NoGood, n: usize) -> Partial {
    let blank: Vec<Term> = (0..n).map(|i| Term(2 + i)).collect();
    let mut upd = false;
    ng.update_term_vec(&blank, &mut upd)
        .iter()
        .map(|t| {
            if t.is_truth_value() {
                t.is_true() as u8
            } else {
                2
            }
        })
        .collect()
}

fn mode(m: u8) -> DuplicateElemination {
    match m % 3 {
        0 => DuplicateElemination::None,
        1 => DuplicateElemination::Equiv,
        _ => DuplicateElemination::Subsume,
    }
}

pub fn c18_check(c: &NgCase, st: &mut Stats) -> CheckResult {
    let n = c.n as usize;
    let mut store = if c.queries.len() % 2 == 0 {
        NoGoodStore::new(n as u32)
    } else {
        NoGoodStore::try_new(n).ok_or("NoGoodStore::try_new refused a small size")?
    };
    let mut added: Vec<Partial> = Vec::new();
    let mut modes_used = std::collections::BTreeSet::new();
    let mut cur_mode = 1u8; // Equiv is the default
    for op in &c.ops {
        match op {
            NgOp::Mode(m) => {
                store.set_dup_elem(mode(*m));
                cur_mode = *m % 3;
            }
            NgOp::Add(p) => {
                let p: Partial = p.iter().take(n).copied().chain(std::iter::repeat(2)).take(n).collect();
                if p.iter().all(|&x| x == 2) {
                    continue; // the empty nogood is never produced by any caller
                }
                let ng = NoGood::from_term_vec(&terms(&p));
                if ng.len() != p.iter().filter(|&&x| x != 2).count() {
                    return Err(format!("from_term_vec({}) has len {}", show(&p), ng.len()));
                }
                if read_back(&ng, n) != p {
                    return Err(format!(
                        "from_term_vec/update_term_vec round trip: {} became {}",
                        show(&p),
                        show(&read_back(&ng, n))
                    ));
                }
                store.add_ng(ng);
                added.push(p);
                modes_used.insert(cur_mode);
            }
        }
    }
    let excluded = |tau: u32| added.iter().any(|g| matches(g, tau));
    let hist = || {
        c.ops
            .iter()
            .map(|o| match o {
                NgOp::Mode(m) => format!("mode={:?}", mode(*m)),
                NgOp::Add(p) => format!("add {}", show(&p[..n.min(p.len())])),
            })
            .collect::<Vec<_>>()
            .join("; ")
    };
    // the store excludes exactly the total assignments the added nogoods exclude
    for tau in 0..(1u32 << n) {
        let p: Partial = (0..n).map(|i| ((tau >> i) & 1) as u8).collect();
        let got = store.conclusions(&NoGood::from_term_vec(&terms(&p)));
        if got.is_none() != excluded(tau) {
            return Err(format!(
                "total assignment {} is {} by the added nogoods but conclusions() says {} [{}]",
                show(&p),
                if excluded(tau) { "excluded" } else { "not excluded" },
                if got.is_none() { "conflict" } else { "no conflict" },
                hist()
            ));
        }
    }
    let mut derived_any = false;
    for q in &c.queries {
        let q: Partial = q.iter().take(n).copied().chain(std::iter::repeat(2)).take(n).collect();
        let e: Vec<u32> = (0..(1u32 << n))
            .filter(|&t| extends(t, &q) && !excluded(t))
            .collect();
        let direct = added.iter().any(|g| contained(g, &q));
        let tv = terms(&q);
        let check_forced = |what: &str, res: &Partial| -> Result<bool, String> {
            let mut new = false;
            for i in 0..n {
                if q[i] != 2 {
                    if res[i] != q[i] {
                        return Err(format!(
                            "{what}: decided position {i} of {} changed: {} [{}]",
                            show(&q),
                            show(res),
                            hist()
                        ));
                    }
                } else if res[i] != 2 {
                    new = true;
                    if !e.iter().all(|t| ((t >> i) & 1) as u8 == res[i]) {
                        return Err(format!(
                            "{what}: from {} concluded position {i} = {} but an extension avoiding all added nogoods has the other value [{}]",
                            show(&q),
                            res[i],
                            hist()
                        ));
                    }
                }
            }
            Ok(new)
        };
        match store.conclusions(&NoGood::from_term_vec(&tv)) {
            Some(cn) => {
                if direct {
                    return Err(format!(
                        "interpretation {} matches an added nogood but no conflict is reported [{}]",
                        show(&q),
                        hist()
                    ));
                }
                derived_any |= check_forced("conclusions", &read_back(&cn, n))?;
                // propagation is iterated by feeding a result back as the next interpretation (the object itself, not a
                // copy made from a term vector): same oracle relative to the larger interpretation
                let mut cur = cn;
                for round in 0..3 {
                    let r: Partial = read_back(&cur, n);
                    let e_r: Vec<u32> = (0..(1u32 << n)).filter(|&t| extends(t, &r) && !excluded(t)).collect();
                    let direct_r = added.iter().any(|g| contained(g, &r));
                    match store.conclusions(&cur) {
                        None => {
                            if !e_r.is_empty() {
                                return Err(format!(
                                    "spurious conflict: conclusions() fed with its own result {} (round {round}, from {}) = None but the total extension {:#b} avoids all added nogoods [{}]",
                                    show(&r), show(&q), e_r[0], hist()
                                ));
                            }
                            break;
                        }
                        Some(next) => {
                            if direct_r {
                                return Err(format!(
                                    "conclusions() fed with its own result {} (round {round}, from {}): it matches an added nogood but no conflict is reported [{}]",
                                    show(&r), show(&q), hist()
                                ));
                            }
                            let rn = read_back(&next, n);
                            for i in 0..n {
                                if r[i] != 2 && rn[i] != r[i] {
                                    return Err(format!("conclusions() fed with its own result {}: decided position {i} changed [{}]", show(&r), hist()));
                                }
                                if r[i] == 2 && rn[i] != 2 && !e_r.iter().all(|t| ((t >> i) & 1) as u8 == rn[i]) {
                                    return Err(format!(
                                        "conclusions() fed with its own result {}: concluded position {i} = {} but an extension avoiding all added nogoods has the other value [{}]",
                                        show(&r), rn[i], hist()
                                    ));
                                }
                            }
                            if rn == r {
                                break;
                            }
                            cur = next;
                        }
                    }
                }
            }
            None => {
                if !e.is_empty() {
                    return Err(format!(
                        "spurious conflict: conclusions({}) = None but the total extension {:#b} avoids all added nogoods [{}]",
                        show(&q),
                        e[0],
                        hist()
                    ));
                }
            }
        }
        // closure (hook H2)
        match store.verif_conclusion_closure(&tv) {
            None => {
                if !e.is_empty() {
                    return Err(format!(
                        "spurious conflict: closure({}) is inconsistent but the extension {:#b} avoids all added nogoods [{}]",
                        show(&q),
                        e[0],
                        hist()
                    ));
                }
            }
            Some(r) => {
                if direct {
                    return Err(format!(
                        "closure: interpretation {} matches an added nogood but no inconsistency is reported [{}]",
                        show(&q),
                        hist()
                    ));
                }
                match r {
                    Some(v) => {
                        let res: Partial = v
                            .iter()
                            .map(|t| if t.is_truth_value() { t.is_true() as u8 } else { 2 })
                            .collect();
                        if res.len() != n {
                            return Err("closure returned a vector of wrong length".into());
                        }
                        let new = check_forced("closure", &res)?;
                        if !new {
                            return Err(format!("closure reported an update of {} without a new literal", show(&q)));
                        }
                        // undecided positions keep their original term
                        for i in 0..n {
                            if res[i] == 2 && v[i] != tv[i] {
                                return Err("closure replaced an undecided term".into());
                            }
                        }
                    }
                    None => {
                        // NoUpdate => one-step conclusions add nothing
                        if let Some(cn) = store.conclusions(&NoGood::from_term_vec(&tv)) {
                            if read_back(&cn, n) != q {
                                return Err(format!(
                                    "closure says NoUpdate for {} but conclusions() derives {} [{}]",
                                    show(&q),
                                    show(&read_back(&cn, n)),
                                    hist()
                                ));
                            }
                        }
                    }
                }
            }
        }
    }
    for m in &modes_used {
        st.label(&format!("mode={:?}", mode(*m)));
    }
    let nested = added.iter().enumerate().any(|(i, a)| {
        added.iter().enumerate().any(|(j, b)| {
            i != j
                && a.iter().filter(|&&x| x != 2).count() < b.iter().filter(|&&x| x != 2).count()
                && contained(a, b)
        })
    });
    if nested {
        st.label("nested_nogoods");
    }
    if derived_any {
        st.label("literal_derived");
    }
    if nested && derived_any {
        st.nontrivial(stable_hash(c), || json!({"n": n, "history": hist(), "queries": c.queries.iter().map(|q| show(q)).collect::<Vec<_>>()}));
    }
    Ok(Outcome::Ok)
}

fn partial(n: usize, dense: bool) -> BoxedStrategy<Partial> {
    let cell = if dense {
        prop_oneof![2 => Just(0u8), 2 => Just(1u8), 1 => Just(2u8)].boxed()
    } else {
        prop_oneof![1 => Just(0u8), 1 => Just(1u8), 3 => Just(2u8)].boxed()
    };
    proptest::collection::vec(cell, n).boxed()
}

pub fn ng_case(nmax: u8) -> BoxedStrategy<NgCase> {
    (1..=nmax)
        .prop_flat_map(|n| {
            let nn = n as usize;
            // nesting bias: a base nogood, variations of it (subset / superset / flipped literal /
            // duplicate) and unrelated ones
            let base = partial(nn, false);
            let ops = (base, proptest::collection::vec((0u8..8, any::<u16>(), any::<bool>(), partial(nn, false)), 1..10))
                .prop_map(move |(base, specs)| {
                    let mut ops = Vec::new();
                    let mut cur = base.clone();
                    ops.push(NgOp::Add(base));
                    for (kind, pos, val, other) in specs {
                        let i = crate::gen::pick(pos, nn);
                        match kind {
                            0 => ops.push(NgOp::Mode(pos as u8)),
                            1 => {
                                cur[i] = 2; // subset
                                ops.push(NgOp::Add(cur.clone()));
                            }
                            2 | 3 => {
                                cur[i] = val as u8; // superset / flipped literal
                                ops.push(NgOp::Add(cur.clone()));
                            }
                            4 => ops.push(NgOp::Add(cur.clone())), // duplicate
                            5 => {
                                cur = other.clone();
                                ops.push(NgOp::Add(other));
                            }
                            _ => ops.push(NgOp::Add(other)),
                        }
                    }
                    ops
                });
            let first_mode = (0u8..3).prop_map(NgOp::Mode);
            (
                Just(n),
                first_mode,
                ops,
                proptest::collection::vec(prop_oneof![partial(nn, false), partial(nn, true)], 1..8),
            )
        })
        .prop_map(|(n, m, mut ops, queries)| {
            ops.insert(0, m);
            NgCase { n, ops, queries }
        })
        .boxed()
}


// ---------------------------------------------------------------------------------------------------------------------
// sparse variable indices (round 6): the same oracles over n <= 5 logical variables that sit at far-apart positions of a
// large store (around 63/64/65, 2^16 and 2^17: word and roaring-container boundaries), plus the pairwise NoGood relations
// the store is built from (is_violating, is_contradicting, conclude, disjunction, new_single_nogood, try_from_pair_iter).

#[derive(Clone, Debug, Serialize, Deserialize, PartialEq, Eq, Hash)]
pub struct SparseCase {
    /// strictly increasing positions of the logical variables
    pub idx: Vec<u32>,
    pub ops: Vec<NgOp>,
    pub queries: Vec<Partial>,
}

fn expand(idx: &[u32], p: &[u8]) -> Vec<Term> {
    let size = *idx.last().unwrap() as usize + 1;
    let mut v: Vec<Term> = (0..size).map(|i| Term(2 + i)).collect();
    for (k, &i) in idx.iter().enumerate() {
        match p[k] {
            0 => v[i as usize] = Term::BOT,
            1 => v[i as usize] = Term::TOP,
            _ => {}
        }
    }
    v
}

fn project(idx: &[u32], ng: &NoGood, what: &str) -> Result<Partial, String> {
    let size = *idx.last().unwrap() as usize + 1;
    let blank: Vec<Term> = (0..size).map(|i| Term(2 + i)).collect();
    let mut upd = false;
    let v = ng.update_term_vec(&blank, &mut upd);
    if v.len() != size {
        return Err(format!("{what}: update_term_vec changed the length of the vector"));
    }
    let mut out = vec![2u8; idx.len()];
    let mut k = 0;
    for (i, t) in v.iter().enumerate() {
        if k < idx.len() && idx[k] as usize == i {
            out[k] = if t.is_truth_value() { t.is_true() as u8 } else { 2 };
            k += 1;
        } else if *t != blank[i] {
            return Err(format!("{what}: position {i}, which no nogood and no interpretation mentions, is assigned (positions in use: {idx:?})"));
        }
    }
    if upd != out.iter().any(|&x| x != 2) {
        return Err(format!("{what}: update flag {upd} but result {}", show(&out)));
    }
    if ng.len() != out.iter().filter(|&&x| x != 2).count() {
        return Err(format!("{what}: len() = {} for {}", ng.len(), show(&out)));
    }
    Ok(out)
}

pub fn c18_sparse_check(c: &SparseCase, st: &mut Stats) -> CheckResult {
    let idx = &c.idx;
    let n = idx.len();
    let size = *idx.last().unwrap() as usize + 1;
    let fit = |p: &Partial| -> Partial { p.iter().take(n).copied().chain(std::iter::repeat(2)).take(n).collect() };
    let mk = |p: &[u8]| NoGood::from_term_vec(&expand(idx, p));
    let mut store = NoGoodStore::new(size as u32);
    let mut added: Vec<Partial> = Vec::new();
    for op in &c.ops {
        match op {
            NgOp::Mode(m) => store.set_dup_elem(mode(*m)),
            NgOp::Add(p) => {
                let p = fit(p);
                if p.iter().all(|&x| x == 2) {
                    continue;
                }
                let ng = mk(&p);
                if project(idx, &ng, "from_term_vec")? != p {
                    return Err(format!("from_term_vec/update_term_vec round trip at positions {idx:?}: {} became {}", show(&p), show(&project(idx, &ng, "")?)));
                }
                // the same nogood assembled from pairs and from single assignments
                let mut pairs = p.iter().enumerate().filter(|(_, &x)| x != 2).map(|(k, &x)| (idx[k] as usize, x == 1));
                match NoGood::try_from_pair_iter(&mut pairs) {
                    Some(g) if g == ng => {}
                    other => return Err(format!("try_from_pair_iter for {} at {idx:?} gives {other:?}, from_term_vec {ng:?}", show(&p))),
                }
                let mut acc: Option<NoGood> = None;
                for (k, &x) in p.iter().enumerate().filter(|(_, &x)| x != 2) {
                    let s = NoGood::new_single_nogood(idx[k] as usize, x == 1);
                    match acc.as_mut() {
                        None => acc = Some(s),
                        Some(a) => a.disjunction(&s),
                    }
                }
                if acc.as_ref() != Some(&ng) {
                    return Err(format!("disjunction of new_single_nogood for {} at {idx:?} gives {acc:?}, from_term_vec {ng:?}", show(&p)));
                }
                store.add_ng(ng);
                added.push(p);
            }
        }
    }
    if added.is_empty() {
        return Ok(Outcome::Ok);
    }
    let excluded = |tau: u32| added.iter().any(|g| matches(g, tau));
    let hist = || {
        format!(
            "positions {idx:?}; {}",
            c.ops
                .iter()
                .map(|o| match o {
                    NgOp::Mode(m) => format!("mode={:?}", mode(*m)),
                    NgOp::Add(p) => format!("add {}", show(&fit(p))),
                })
                .collect::<Vec<_>>()
                .join("; ")
        )
    };
    for tau in 0..(1u32 << n) {
        let p: Partial = (0..n).map(|i| ((tau >> i) & 1) as u8).collect();
        let got = store.conclusions(&mk(&p));
        if got.is_none() != excluded(tau) {
            return Err(format!(
                "total assignment {} is {} by the added nogoods but conclusions() says {} [{}]",
                show(&p),
                if excluded(tau) { "excluded" } else { "not excluded" },
                if got.is_none() { "conflict" } else { "no conflict" },
                hist()
            ));
        }
    }
    let mut derived = false;
    for q in &c.queries {
        let q = fit(q);
        let qn = mk(&q);
        // pairwise relations between every added nogood and the interpretation
        for g in &added {
            let gn = mk(g);
            let viol = contained(g, &q);
            if gn.is_violating(&qn) != viol {
                return Err(format!("is_violating: nogood {} interpretation {} at {idx:?}: got {}", show(g), show(&q), !viol));
            }
            let contra = g.iter().zip(&q).any(|(&a, &b)| a != 2 && b != 2 && a != b);
            if gn.is_contradicting(&qn) != contra {
                return Err(format!("is_contradicting: nogood {} interpretation {} at {idx:?}: got {}", show(g), show(&q), !contra));
            }
            let open: Vec<usize> = (0..n).filter(|&k| g[k] != 2 && q[k] == 2).collect();
            let want = if open.len() == 1 && !contra { Some((idx[open[0]] as usize, g[open[0]] == 0)) } else { None };
            if gn.conclude(&qn) != want {
                return Err(format!("conclude: nogood {} interpretation {} at {idx:?}: got {:?}, expected {:?}", show(g), show(&q), gn.conclude(&qn), want));
            }
            // update_term_vec over a partly decided vector: nogood literals win, the rest is kept, flag iff an undecided position is set
            let tv = expand(idx, &q);
            let mut upd = false;
            let r = gn.update_term_vec(&tv, &mut upd);
            let want_upd = !open.is_empty();
            let mut exp = tv.clone();
            for k in 0..n {
                if g[k] != 2 {
                    exp[idx[k] as usize] = if g[k] == 1 { Term::TOP } else { Term::BOT };
                }
            }
            if r != exp || upd != want_upd {
                return Err(format!("update_term_vec: nogood {} over {} at {idx:?}: wrong vector or flag (flag {upd}, expected {want_upd})", show(g), show(&q)));
            }
        }
        let e: Vec<u32> = (0..(1u32 << n)).filter(|&t| extends(t, &q) && !excluded(t)).collect();
        let direct = added.iter().any(|g| contained(g, &q));
        match store.conclusions(&qn) {
            None => {
                if !e.is_empty() {
                    return Err(format!("spurious conflict: conclusions({}) = None but the total extension {:#b} avoids all added nogoods [{}]", show(&q), e[0], hist()));
                }
            }
            Some(cn) => {
                if direct {
                    return Err(format!("interpretation {} matches an added nogood but no conflict is reported [{}]", show(&q), hist()));
                }
                let res = project(idx, &cn, "conclusions")?;
                for k in 0..n {
                    if q[k] != 2 && res[k] != q[k] {
                        return Err(format!("conclusions: decided position {k} of {} changed: {} [{}]", show(&q), show(&res), hist()));
                    }
                    if q[k] == 2 && res[k] != 2 {
                        derived = true;
                        if !e.iter().all(|t| ((t >> k) & 1) as u8 == res[k]) {
                            return Err(format!("conclusions: from {} concluded position {k} = {} but an extension avoiding all added nogoods has the other value [{}]", show(&q), res[k], hist()));
                        }
                    }
                }
            }
        }
        match store.verif_conclusion_closure(&expand(idx, &q)) {
            None => {
                if !e.is_empty() {
                    return Err(format!("spurious conflict: closure({}) is inconsistent but the extension {:#b} avoids all added nogoods [{}]", show(&q), e[0], hist()));
                }
            }
            Some(r) => {
                if direct {
                    return Err(format!("closure: interpretation {} matches an added nogood but no inconsistency is reported [{}]", show(&q), hist()));
                }
                if let Some(v) = r {
                    let tv = expand(idx, &q);
                    if v.len() != tv.len() {
                        return Err("closure returned a vector of wrong length".into());
                    }
                    for (i, t) in v.iter().enumerate() {
                        match idx.iter().position(|&x| x as usize == i) {
                            None => {
                                if *t != tv[i] {
                                    return Err(format!("closure assigned position {i}, which nothing mentions [{}]", hist()));
                                }
                            }
                            Some(k) => {
                                if q[k] != 2 && *t != tv[i] {
                                    return Err(format!("closure changed decided position {k} of {} [{}]", show(&q), hist()));
                                }
                                if q[k] == 2 && t.is_truth_value() && !e.iter().all(|x| ((x >> k) & 1 == 1) == t.is_true()) {
                                    return Err(format!("closure: from {} concluded position {k} = {} but an extension avoiding all added nogoods has the other value [{}]", show(&q), t.is_true(), hist()));
                                }
                            }
                        }
                    }
                }
            }
        }
    }
    let crosses16 = idx.first().map(|&a| a < 65536).unwrap_or(false) && idx.last().map(|&a| a >= 65536).unwrap_or(false);
    if crosses16 {
        st.label("positions_on_both_sides_of_2^16");
    }
    if idx.iter().any(|&a| a >= 64) && idx.iter().any(|&a| a < 64) {
        st.label("positions_on_both_sides_of_64");
    }
    if derived {
        st.label("literal_derived");
    }
    if derived && added.len() >= 2 && idx.iter().any(|&a| a >= 64) {
        st.nontrivial(stable_hash(c), || json!({"history": hist(), "queries": c.queries.iter().map(|q| show(&fit(q))).collect::<Vec<_>>()}));
    }
    Ok(Outcome::Ok)
}

pub fn sparse_case() -> BoxedStrategy<SparseCase> {
    // positions drawn around word / container boundaries, made strictly increasing
    let pool: Vec<u32> = vec![0, 1, 2, 31, 32, 33, 62, 63, 64, 65, 127, 128, 129, 255, 256, 4095, 4096, 65534, 65535, 65536, 65537, 131071, 131072];
    let positions = proptest::collection::btree_set(proptest::sample::select(pool), 2..=5).prop_map(|s| s.into_iter().collect::<Vec<u32>>());
    positions
        .prop_flat_map(|idx| {
            let nn = idx.len();
            let ops = proptest::collection::vec(
                prop_oneof![1 => (0u8..3).prop_map(NgOp::Mode), 6 => partial(nn, false).prop_map(NgOp::Add), 3 => partial(nn, true).prop_map(NgOp::Add)],
                2..9,
            );
            (Just(idx), (0u8..3).prop_map(NgOp::Mode), ops, proptest::collection::vec(prop_oneof![partial(nn, false), partial(nn, true)], 1..6))
        })
        .prop_map(|(idx, m, mut ops, queries)| {
            ops.insert(0, m);
            SparseCase { idx, ops, queries }
        })
        .boxed()
}

pub fn c18(tier: Tier) -> PropSpec {
    let nmax = tier.pick(6, 9);
    PropSpec {
        id: "C18",
        level: "exploration",
        rule: "history over n<=6 (thorough 9) variables = mode switches (None/Equiv/Subsume) and adds of non-empty nogoods drawn with nesting \
               bias (base nogood, subsets, supersets, flipped literals, duplicates, unrelated); then (i) ALL 2^n total assignments: \
               conclusions() is None iff the assignment matches an added nogood; (ii) generated partial interpretations: conclusions()/ \
               closure (hook H2) keep decided positions, derive only literals that hold in every total extension avoiding all added nogoods \
               (2^n sweep), report a conflict only if no such extension exists and always if the interpretation contains an added nogood; \
               NoUpdate implies no one-step conclusion. Non-trivial: store with two nogoods of different size where one contains the other \
               and an interpretation under which a literal is derived.",
        assumptions: vec![
            "the empty nogood is not generated: no caller can produce it and add_ng documents nothing for it",
            "nogoods mention only variables below the store size (as every caller does)",
        ],
        exhaustive: false,
        parts: vec![
            Part::new("history", tier.pick(300000, 3000000), move || ng_case(nmax), c18_check),
            Box::new(Logged(Part::new("history-with-logging", tier.pick(5000, 50000), || ng_case(4), c18_check))),
            // round 6: far-apart variable positions (word and roaring-container boundaries) + pairwise NoGood relations
            Part::new("sparse-positions", tier.pick(1500, 15000), sparse_case, c18_sparse_check),
        ],
    }
}
