//! C18: nogood store — sound deductions, no spurious conflicts, nothing forgotten.

use crate::engine::*;
use adf_bdd::datatypes::Term;
use adf_bdd::nogoods::{DuplicateElemination, NoGood, NoGoodStore};
use proptest::prelude::*;
use serde::{Deserialize, Serialize};
use serde_json::json;

/// partial assignment: 0 = false, 1 = true, 2 = unassigned
pub type Partial = Vec<u8>;

#[derive(Clone, Debug, Serialize, Deserialize, PartialEq, Eq, Hash)]
pub enum NgOp {
    Mode(u8),
    Add(Partial),
}

#[derive(Clone, Debug, Serialize, Deserialize, PartialEq, Eq, Hash)]
pub struct NgCase {
    pub n: u8,
    pub ops: Vec<NgOp>,
    pub queries: Vec<Partial>,
}

pub fn terms(p: &[u8]) -> Vec<Term> {
    p.iter()
        .enumerate()
        .map(|(i, &x)| match x {
            0 => Term::BOT,
            1 => Term::TOP,
            _ => Term(2 + i),
        })
        .collect()
}

fn matches(ng: &[u8], total: u32) -> bool {
    ng.iter()
        .enumerate()
        .all(|(i, &x)| x == 2 || (x == 1) == ((total >> i) & 1 == 1))
}
fn extends(total: u32, p: &[u8]) -> bool {
    matches(p, total)
}
fn contained(ng: &[u8], interp: &[u8]) -> bool {
    ng.iter().zip(interp).all(|(&g, &i)| g == 2 || g == i)
}
fn show(p: &[u8]) -> String {
    p.iter()
        .map(|x| match x {
            0 => 'F',
            1 => 'T',
            _ => '-',
        })
        .collect()
}

/// read a NoGood/Interpretation back through the public API
fn read_back(ng: &NoGood, n: usize) -> Partial {
    let blank: Vec<Term> = (0..n).map(|i| Term(2 + i)).collect();
    let mut upd = false;
    ng.update_term_vec(&blank, &mut upd)
        .iter()
        .map(|t| {
            if t.is_truth_value() {
                t.is_true() as u8
            } else {
                2
            }
        })
        .collect()
}

fn mode(m: u8) -> DuplicateElemination {
    match m % 3 {
        0 => DuplicateElemination::None,
        1 => DuplicateElemination::Equiv,
        _ => DuplicateElemination::Subsume,
    }
}

pub fn c18_check(c: &NgCase, st: &mut Stats) -> CheckResult {
    let n = c.n as usize;
    let mut store = if c.queries.len() % 2 == 0 {
        NoGoodStore::new(n as u32)
    } else {
        NoGoodStore::try_new(n).ok_or("NoGoodStore::try_new refused a small size")?
    };
    let mut added: Vec<Partial> = Vec::new();
    let mut modes_used = std::collections::BTreeSet::new();
    let mut cur_mode = 1u8; // Equiv is the default
    for op in &c.ops {
        match op {
            NgOp::Mode(m) => {
                store.set_dup_elem(mode(*m));
                cur_mode = *m % 3;
            }
            NgOp::Add(p) => {
                let p: Partial = p.iter().take(n).copied().chain(std::iter::repeat(2)).take(n).collect();
                if p.iter().all(|&x| x == 2) {
                    continue; // the empty nogood is never produced by any caller
                }
                let ng = NoGood::from_term_vec(&terms(&p));
                if ng.len() != p.iter().filter(|&&x| x != 2).count() {
                    return Err(format!("from_term_vec({}) has len {}", show(&p), ng.len()));
                }
                if read_back(&ng, n) != p {
                    return Err(format!(
                        "from_term_vec/update_term_vec round trip: {} became {}",
                        show(&p),
                        show(&read_back(&ng, n))
                    ));
                }
                store.add_ng(ng);
                added.push(p);
                modes_used.insert(cur_mode);
            }
        }
    }
    let excluded = |tau: u32| added.iter().any(|g| matches(g, tau));
    let hist = || {
        c.ops
            .iter()
            .map(|o| match o {
                NgOp::Mode(m) => format!("mode={:?}", mode(*m)),
                NgOp::Add(p) => format!("add {}", show(&p[..n.min(p.len())])),
            })
            .collect::<Vec<_>>()
            .join("; ")
    };
    // the store excludes exactly the total assignments the added nogoods exclude
    for tau in 0..(1u32 << n) {
        let p: Partial = (0..n).map(|i| ((tau >> i) & 1) as u8).collect();
        let got = store.conclusions(&NoGood::from_term_vec(&terms(&p)));
        if got.is_none() != excluded(tau) {
            return Err(format!(
                "total assignment {} is {} by the added nogoods but conclusions() says {} [{}]",
                show(&p),
                if excluded(tau) { "excluded" } else { "not excluded" },
                if got.is_none() { "conflict" } else { "no conflict" },
                hist()
            ));
        }
    }
    let mut derived_any = false;
    for q in &c.queries {
        let q: Partial = q.iter().take(n).copied().chain(std::iter::repeat(2)).take(n).collect();
        let e: Vec<u32> = (0..(1u32 << n))
            .filter(|&t| extends(t, &q) && !excluded(t))
            .collect();
        let direct = added.iter().any(|g| contained(g, &q));
        let tv = terms(&q);
        let check_forced = |what: &str, res: &Partial| -> Result<bool, String> {
            let mut new = false;
            for i in 0..n {
                if q[i] != 2 {
                    if res[i] != q[i] {
                        return Err(format!(
                            "{what}: decided position {i} of {} changed: {} [{}]",
                            show(&q),
                            show(res),
                            hist()
                        ));
                    }
                } else if res[i] != 2 {
                    new = true;
                    if !e.iter().all(|t| ((t >> i) & 1) as u8 == res[i]) {
                        return Err(format!(
                            "{what}: from {} concluded position {i} = {} but an extension avoiding all added nogoods has the other value [{}]",
                            show(&q),
                            res[i],
                            hist()
                        ));
                    }
                }
            }
            Ok(new)
        };
        match store.conclusions(&NoGood::from_term_vec(&tv)) {
            Some(cn) => {
                if direct {
                    return Err(format!(
                        "interpretation {} matches an added nogood but no conflict is reported [{}]",
                        show(&q),
                        hist()
                    ));
                }
                derived_any |= check_forced("conclusions", &read_back(&cn, n))?;
                // propagation is iterated by feeding a result back as the next interpretation (the object itself, not a
                // copy made from a term vector): same oracle relative to the larger interpretation
                let mut cur = cn;
                for round in 0..3 {
                    let r: Partial = read_back(&cur, n);
                    let e_r: Vec<u32> = (0..(1u32 << n)).filter(|&t| extends(t, &r) && !excluded(t)).collect();
                    let direct_r = added.iter().any(|g| contained(g, &r));
                    match store.conclusions(&cur) {
                        None => {
                            if !e_r.is_empty() {
                                return Err(format!(
                                    "spurious conflict: conclusions() fed with its own result {} (round {round}, from {}) = None but the total extension {:#b} avoids all added nogoods [{}]",
                                    show(&r), show(&q), e_r[0], hist()
                                ));
                            }
                            break;
                        }
                        Some(next) => {
                            if direct_r {
                                return Err(format!(
                                    "conclusions() fed with its own result {} (round {round}, from {}): it matches an added nogood but no conflict is reported [{}]",
                                    show(&r), show(&q), hist()
                                ));
                            }
                            let rn = read_back(&next, n);
                            for i in 0..n {
                                if r[i] != 2 && rn[i] != r[i] {
                                    return Err(format!("conclusions() fed with its own result {}: decided position {i} changed [{}]", show(&r), hist()));
                                }
                                if r[i] == 2 && rn[i] != 2 && !e_r.iter().all(|t| ((t >> i) & 1) as u8 == rn[i]) {
                                    return Err(format!(
                                        "conclusions() fed with its own result {}: concluded position {i} = {} but an extension avoiding all added nogoods has the other value [{}]",
                                        show(&r), rn[i], hist()
                                    ));
                                }
                            }
                            if rn == r {
                                break;
                            }
                            cur = next;
                        }
                    }
                }
            }
            None => {
                if !e.is_empty() {
                    return Err(format!(
                        "spurious conflict: conclusions({}) = None but the total extension {:#b} avoids all added nogoods [{}]",
                        show(&q),
                        e[0],
                        hist()
                    ));
                }
            }
        }
        // closure (hook H2)
        match store.verif_conclusion_closure(&tv) {
            None => {
                if !e.is_empty() {
                    return Err(format!(
                        "spurious conflict: closure({}) is inconsistent but the extension {:#b} avoids all added nogoods [{}]",
                        show(&q),
                        e[0],
                        hist()
                    ));
                }
            }
            Some(r) => {
                if direct {
                    return Err(format!(
                        "closure: interpretation {} matches an added nogood but no inconsistency is reported [{}]",
                        show(&q),
                        hist()
                    ));
                }
                match r {
                    Some(v) => {
                        let res: Partial = v
                            .iter()
                            .map(|t| if t.is_truth_value() { t.is_true() as u8 } else { 2 })
                            .collect();
                        if res.len() != n {
                            return Err("closure returned a vector of wrong length".into());
                        }
                        let new = check_forced("closure", &res)?;
                        if !new {
                            return Err(format!("closure reported an update of {} without a new literal", show(&q)));
                        }
                        // undecided positions keep their original term
                        for i in 0..n {
                            if res[i] == 2 && v[i] != tv[i] {
                                return Err("closure replaced an undecided term".into());
                            }
                        }
                    }
                    None => {
                        // NoUpdate => one-step conclusions add nothing
                        if let Some(cn) = store.conclusions(&NoGood::from_term_vec(&tv)) {
                            if read_back(&cn, n) != q {
                                return Err(format!(
                                    "closure says NoUpdate for {} but conclusions() derives {} [{}]",
                                    show(&q),
                                    show(&read_back(&cn, n)),
                                    hist()
                                ));
                            }
                        }
                    }
                }
            }
        }
    }
    for m in &modes_used {
        st.label(&format!("mode={:?}", mode(*m)));
    }
    let nested = added.iter().enumerate().any(|(i, a)| {
        added.iter().enumerate().any(|(j, b)| {
            i != j
                && a.iter().filter(|&&x| x != 2).count() < b.iter().filter(|&&x| x != 2).count()
                && contained(a, b)
        })
    });
    if nested {
        st.label("nested_nogoods");
    }
    if derived_any {
        st.label("literal_derived");
    }
    if nested && derived_any {
        st.nontrivial(stable_hash(c), || json!({"n": n, "history": hist(), "queries": c.queries.iter().map(|q| show(q)).collect::<Vec<_>>()}));
    }
    Ok(Outcome::Ok)
}

fn partial(n: usize, dense: bool) -> BoxedStrategy<Partial> {
    let cell = if dense {
        prop_oneof![2 => Just(0u8), 2 => Just(1u8), 1 => Just(2u8)].boxed()
    } else {
        prop_oneof![1 => Just(0u8), 1 => Just(1u8), 3 => Just(2u8)].boxed()
    };
    proptest::collection::vec(cell, n).boxed()
}

pub fn ng_case(nmax: u8) -> BoxedStrategy<NgCase> {
    (1..=nmax)
        .prop_flat_map(|n| {
            let nn = n as usize;
            // nesting bias: a base nogood, variations of it (subset / superset / flipped literal /
            // duplicate) and unrelated ones
            let base = partial(nn, false);
            let ops = (base, proptest::collection::vec((0u8..8, any::<u16>(), any::<bool>(), partial(nn, false)), 1..10))
                .prop_map(move |(base, specs)| {
                    let mut ops = Vec::new();
                    let mut cur = base.clone();
                    ops.push(NgOp::Add(base));
                    for (kind, pos, val, other) in specs {
                        let i = crate::gen::pick(pos, nn);
                        match kind {
                            0 => ops.push(NgOp::Mode(pos as u8)),
                            1 => {
                                cur[i] = 2; // subset
                                ops.push(NgOp::Add(cur.clone()));
                            }
                            2 | 3 => {
                                cur[i] = val as u8; // superset / flipped literal
                                ops.push(NgOp::Add(cur.clone()));
                            }
                            4 => ops.push(NgOp::Add(cur.clone())), // duplicate
                            5 => {
                                cur = other.clone();
                                ops.push(NgOp::Add(other));
                            }
                            _ => ops.push(NgOp::Add(other)),
                        }
                    }
                    ops
                });
            let first_mode = (0u8..3).prop_map(NgOp::Mode);
            (
                Just(n),
                first_mode,
                ops,
                proptest::collection::vec(prop_oneof![partial(nn, false), partial(nn, true)], 1..8),
            )
        })
        .prop_map(|(n, m, mut ops, queries)| {
            ops.insert(0, m);
            NgCase { n, ops, queries }
        })
        .boxed()
}

pub fn c18(tier: Tier) -> PropSpec {
    let nmax = tier.pick(6, 9);
    PropSpec {
        id: "C18",
        level: "exploration",
        rule: "history over n<=6 (thorough 9) variables = mode switches (None/Equiv/Subsume) and adds of non-empty nogoods drawn with nesting \
               bias (base nogood, subsets, supersets, flipped literals, duplicates, unrelated); then (i) ALL 2^n total assignments: \
               conclusions() is None iff the assignment matches an added nogood; (ii) generated partial interpretations: conclusions()/ \
               closure (hook H2) keep decided positions, derive only literals that hold in every total extension avoiding all added nogoods \
               (2^n sweep), report a conflict only if no such extension exists and always if the interpretation contains an added nogood; \
               NoUpdate implies no one-step conclusion. Non-trivial: store with two nogoods of different size where one contains the other \
               and an interpretation under which a literal is derived.",
        assumptions: vec![
            "the empty nogood is not generated: no caller can produce it and add_ng documents nothing for it",
            "nogoods mention only variables below the store size (as every caller does)",
        ],
        exhaustive: false,
        parts: vec![
            Part::new("history", tier.pick(300000, 3000000), move || ng_case(nmax), c18_check),
            Box::new(Logged(Part::new("history-with-logging", tier.pick(5000, 50000), || ng_case(4), c18_check))),
        ],
    }
}
