//! C12: answers are independent of the cargo feature configuration.
//! Every case is executed by 12 probe binaries (the same executor compiled against adf_bdd under
//! each feature set); each probe self-checks against the oracles, and all canonical transcripts
//! must equal the default build's.

use crate::bddmodel::program;
use crate::calls::{self, Call};
use crate::engine::*;
use crate::gen::{self, LabelClass};
use crate::probe::ProbeCase;
use crate::props::sem::sort_strategy;
use proptest::prelude::*;
use serde_json::{json, Value};
use std::io::Write;
use std::path::PathBuf;
use std::process::{Command, Stdio};

pub const DEFAULT_SET: &str = "c-adhoccounting.v1.f1";

pub fn feature_sets() -> Vec<String> {
    let mut v = Vec::new();
    for c in ["none", "adhoccounting", "adhoccountmodels"] {
        for vl in [0, 1] {
            for f in [0, 1] {
                v.push(format!("c-{c}.v{vl}.f{f}"));
            }
        }
    }
    v
}

fn probe_bin(set: &str) -> PathBuf {
    let dir = std::env::var("VERIF_PROBE_DIR").unwrap_or_else(|_| "/verif/target/probe/bin".into());
    PathBuf::from(dir).join(format!("probe-{set}"))
}

fn run_probe(set: &str, case_json: &str) -> Result<Value, String> {
    let mut child = Command::new(probe_bin(set))
        .stdin(Stdio::piped())
        .stdout(Stdio::piped())
        .stderr(Stdio::null())
        .spawn()
        .map_err(|e| format!("cannot start probe {set}: {e}"))?;
    {
        let mut si = child.stdin.take().unwrap();
        si.write_all(case_json.as_bytes()).map_err(|e| e.to_string())?;
        si.write_all(b"\n").map_err(|e| e.to_string())?;
    }
    let out = child.wait_with_output().map_err(|e| e.to_string())?;
    let text = String::from_utf8_lossy(&out.stdout);
    let line = text.lines().next().ok_or_else(|| format!("probe {set} printed nothing (status {:?})", out.status.code()))?;
    serde_json::from_str(line).map_err(|e| format!("probe {set}: {e}"))
}

fn c12_check(c: &ProbeCase, st: &mut Stats) -> CheckResult {
    let js = serde_json::to_string(c).map_err(|e| e.to_string())?;
    let mut reference: Option<Value> = None;
    let mut sets = feature_sets();
    // default build first
    sets.sort_by_key(|s| s != DEFAULT_SET);
    let mut exports: Vec<String> = Vec::new();
    for set in &sets {
        let r = run_probe(set, &js)?;
        if let Some(e) = r.get("error") {
            return Err(format!("feature set {set}: {}", e.as_str().unwrap_or("?")));
        }
        let mut t = r.get("transcript").cloned().ok_or("probe result without transcript")?;
        if let Some(o) = t.as_object_mut() {
            exports.push(o.remove("export").and_then(|e| e.as_str().map(|s| s.to_string())).unwrap_or_default());
        }
        match &reference {
            None => reference = Some(t),
            Some(d) => {
                if *d != t {
                    return Err(format!(
                        "feature set {set} answers differently from the default build: {}",
                        first_difference(d, &t)
                    ));
                }
            }
        }
    }
    // exchange round: every build imports the state ANOTHER build exported after its run, repairs it and runs the
    // case on it; the transcripts must be the ones of the first round
    let exchange = match c {
        ProbeCase::Ops { exchange, hangup_after: None, mirror: false, .. } => *exchange,
        ProbeCase::Adf { exchange, .. } => *exchange,
        _ => None,
    };
    if let (Some(off), true) = (exchange, exports.len() == sets.len() && exports.iter().all(|e| !e.is_empty())) {
        let n = sets.len();
        for (i, set) in sets.iter().enumerate() {
            let from = (i + 1 + (off as usize) % (n - 1)) % n;
            let mut c2 = c.clone();
            match &mut c2 {
                ProbeCase::Ops { import, .. } | ProbeCase::Adf { import, .. } => *import = Some(exports[from].clone()),
                ProbeCase::Deep { .. } => {}
            }
            let js2 = serde_json::to_string(&c2).map_err(|e| e.to_string())?;
            let r = run_probe(set, &js2)?;
            if let Some(e) = r.get("error") {
                return Err(format!("feature set {set} working on the state exported by {}: {}", sets[from], e.as_str().unwrap_or("?")));
            }
            let mut t = r.get("transcript").cloned().ok_or("probe result without transcript")?;
            if let Some(o) = t.as_object_mut() {
                o.remove("export");
            }
            let d = reference.as_ref().unwrap();
            if *d != t {
                return Err(format!(
                    "feature set {set} working on the state exported by {} answers differently from the default build: {}",
                    sets[from],
                    first_difference(d, &t)
                ));
            }
        }
        st.label("exchange_round(import of another build's export)");
        st.count("probe_runs", sets.len() as u64);
    }
    st.count("probe_runs", sets.len() as u64);
    let nt = match c {
        ProbeCase::Ops { prog, hangup_after, .. } => {
            st.label("ops");
            if hangup_after.is_some() {
                st.label("ops:listener-hangs-up(frontend builds)");
            }
            let t = reference.as_ref().unwrap();
            let rich = t["handles"].as_array().map(|h| {
                h.iter().any(|x| x["depth"].as_u64().unwrap_or(0) >= 3 && x["paths"][0].as_u64().unwrap_or(0) + x["paths"][1].as_u64().unwrap_or(0) >= 4)
            });
            prog.ops.iter().any(|o| matches!(o, crate::bddmodel::Op::Restrict(..))) && rich == Some(true)
        }
        ProbeCase::Adf { calls, .. } => {
            st.label("adf");
            calls.len() >= 2
        }
        ProbeCase::Deep { vars, .. } => {
            st.label(if *vars > 64 { "deep:more than 64 variables (saturating counts)" } else { "deep:up to 64 variables" });
            true
        }
    };
    if nt {
        st.nontrivial(stable_hash(&js), || json!({"case": serde_json::from_str::<Value>(&js).unwrap_or(Value::Null)}));
    }
    Ok(Outcome::Ok)
}

fn first_difference(a: &Value, b: &Value) -> String {
    match (a, b) {
        (Value::Object(x), Value::Object(y)) => {
            for (k, v) in x {
                match y.get(k) {
                    None => return format!("key {k} missing"),
                    Some(w) if w != v => return format!("{k}: {}", first_difference(v, w)),
                    _ => {}
                }
            }
            "objects differ".into()
        }
        (Value::Array(x), Value::Array(y)) => {
            if x.len() != y.len() {
                return format!("lengths {} vs {}", x.len(), y.len());
            }
            for (i, (v, w)) in x.iter().zip(y).enumerate() {
                if v != w {
                    return format!("[{i}] {}", first_difference(v, w));
                }
            }
            "arrays differ".into()
        }
        _ => format!("default {a} vs {b}"),
    }
}

pub fn probe_ops_case() -> BoxedStrategy<ProbeCase> {
    (program(6, 40, true), any::<u8>(), proptest::option::weighted(0.25, any::<u8>()), proptest::bool::weighted(0.2), proptest::option::weighted(0.3, any::<u8>()))
        .prop_map(|(prog, goal_var, hangup_after, mirror, exchange)| {
            // a serde / rebuild re-materialisation detaches the sender anyway: hang-ups only on plain programs
            let plain = !prog.ops.iter().any(|o| matches!(o, crate::bddmodel::Op::Serde | crate::bddmodel::Op::Rebuild | crate::bddmodel::Op::AdfNodeList | crate::bddmodel::Op::AdfSerde | crate::bddmodel::Op::SerdeNoFix | crate::bddmodel::Op::RebuildStream | crate::bddmodel::Op::SerdePartialCache(_)));
            ProbeCase::Ops { prog, goal_var, hangup_after: if plain { hangup_after } else { None }, mirror: plain && mirror, import: None, exchange }
        })
        .boxed()
}

/// op sequences whose node stream is mirrored (frontend builds: channel; others: node list) or whose listener hangs up
pub fn probe_stream_case() -> BoxedStrategy<ProbeCase> {
    (program(6, 40, false), any::<u8>(), any::<u8>(), proptest::bool::weighted(0.7))
        .prop_map(|(prog, goal_var, h, mirror)| ProbeCase::Ops {
            prog,
            goal_var,
            hangup_after: if mirror { None } else { Some(h) },
            mirror,
            import: None,
            exchange: None,
        })
        .boxed()
}

pub fn c12_check_entry(c: &ProbeCase, st: &mut Stats) -> CheckResult {
    c12_check(c, st)
}

fn probe_case() -> BoxedStrategy<ProbeCase> {
    let ops = probe_ops_case();
    let adf = (
        gen::adf_case(gen::adf_small(1, 5), LabelClass::Quoted),
        sort_strategy(),
        0u8..4,
        proptest::collection::vec(calls::call_strategy(true), 1..7),
        proptest::option::weighted(0.3, any::<u8>()),
    )
        .prop_map(|(a, sort, backend, mut calls, exchange)| {
            // every case also asks the query kinds named in the property
            calls.push(Call::PathQueries);
            calls.push(Call::FormulaCountsNaive);
            ProbeCase::Adf {
                acs: a.acs,
                labels: a.labels,
                layout: a.layout,
                sort,
                backend,
                calls,
                import: None,
                exchange,
            }
        });
    prop_oneof![10 => ops, 10 => adf, 1 => probe_deep_case()].boxed()
}

/// deep diagrams for the probes and for C13: 20..100 variables, depths around 64 (where counts stop fitting) favoured
pub fn probe_deep_case() -> BoxedStrategy<ProbeCase> {
    (
        prop_oneof![2 => 20u8..=100, 3 => 62u8..=68],
        // skipped variables are rare in half of the cases so that the depth is the number of variables
        prop_oneof![
            proptest::collection::vec((0u8..3, any::<bool>(), proptest::bool::weighted(0.15)), 16..40),
            proptest::collection::vec((0u8..3, any::<bool>(), Just(false)), 16..40),
            proptest::collection::vec((0u8..2, any::<bool>(), Just(false)), 16..40),
        ],
        any::<bool>(),
        proptest::bool::weighted(0.3),
    )
        .prop_map(|(vars, spec, memo_first, reimport)| ProbeCase::Deep { vars, spec, memo_first, reimport, fits_only: false })
        .boxed()
}

pub fn c12(tier: Tier) -> PropSpec {
    PropSpec {
        id: "C12",
        level: "exploration",
        rule: "each generated case (operation sequence incl. restrict / re-materialisation with all read-only queries, or ADF x back-end x \
               API-call history) is executed by 12 probe binaries = the same executor compiled against adf_bdd under \
               {none, adhoccounting, adhoccountmodels} x variablelist on/off x frontend on/off. Each probe self-checks against the shadow \
               model / definitional oracle (C06, C07, C13, C01-C05 style; max_depth is queried FIRST on a store without memoised counts; \
               memoised model counts are checked wherever documented to work, i.e. in all builds but adhoccounting-without- \
               adhoccountmodels) and emits a canonical handle-free transcript (truth tables, T/F/u answers in order, counts, depth, \
               supports, cubes); every transcript must equal the default build's. One case in 21 is a deep diagram (literal chain over 20..100 variables under a selector, optionally exported and re-imported): naive and - where documented - memoised model counts, both path counts, depth and dependencies against an own depth-based count in u128, clamped to the machine word where the library saturates. Non-trivial: op sequence with a restrict and a diagram \
               of depth >= 3 with >= 4 paths, or ADF history with >= 2 calls.",
        assumptions: vec![
            "the binary crates' own feature matrices are not multiplied in",
            "shadow model / oracle as in C06, C07, C13, C01-C05",
        ],
        exhaustive: false,
        parts: vec![Part::with_shrink("probes", tier.pick(1500, 15000), 200, probe_case, c12_check)],
    }
}
