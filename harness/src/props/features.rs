//! C12: answers are independent of the cargo feature configuration.
//! Every case is executed by 12 probe binaries (the same executor compiled against adf_bdd under
//! each feature set); each probe self-checks against the oracles, and all canonical transcripts
//! must equal the default build's.

use crate::bddmodel::program;
use crate::calls::{self, Call};
use crate::engine::*;
use crate::gen::{self, LabelClass};
use crate::probe::ProbeCase;
use crate::props::sem::sort_strategy;
use proptest::prelude::*;
use serde_json::{json, Value};
use std::io::Write;
use std::path::PathBuf;
use std::process::{Command, Stdio};

pub const DEFAULT_SET: &str = "c-adhoccounting.v1.f1";

pub fn feature_sets() -> Vec<String> {
    let mut v = Vec::new();
    for c in ["none", "adhoccounting", "adhoccountmodels"] {
        for vl in [0, 1] {
            for f in [0, 1] {
                v.push(format!("c-{c}.v{vl}.f{f}"));
            }
        }
    }
    v
}

fn probe_bin(set: &str) -> PathBuf {
    let dir = std::env::var("VERIF_PROBE_DIR").unwrap_or_else(|_| "/verif/target/probe/bin".into());
    PathBuf::from(dir).join(format!("probe-{set}"))
}

fn run_probe(set: &str, case_json: &str) -> Result<Value, String> {
    let mut child = Command::new(probe_bin(set))
        .stdin(Stdio::piped())
        .stdout(Stdio::piped())
        .stderr(Stdio::null())
        .spawn()
        .map_err(|e| format!("cannot start probe {set}: {e}"))?;
    {
        let mut si = child.stdin.take().unwrap();
        si.write_all(case_json.as_bytes()).map_err(|e| e.to_string())?;
        si.write_all(b"\n").map_err(|e| e.to_string())?;
    }
    let out = child.wait_with_output().map_err(|e| e.to_string())?;
    let text = String::from_utf8_lossy(&out.stdout);
    let line = text.lines().next().ok_or_else(|| format!("probe {set} printed nothing (status {:?})", out.status.code()))?;
    serde_json::from_str(line).map_err(|e| format!("probe {set}: {e}"))
}

fn c12_check(c: &ProbeCase, st: &mut Stats) -> CheckResult {
    let js = serde_json::to_string(c).map_err(|e| e.to_string())?;
    let mut reference: Option<Value> = None;
    let mut sets = feature_sets();
    // default build first
    sets.sort_by_key(|s| s != DEFAULT_SET);
    for set in &sets {
        let r = run_probe(set, &js)?;
        if let Some(e) = r.get("error") {
            return Err(format!("feature set {set}: {}", e.as_str().unwrap_or("?")));
        }
        let t = r.get("transcript").cloned().ok_or("probe result without transcript")?;
        match &reference {
            None => reference = Some(t),
            Some(d) => {
                if *d != t {
                    return Err(format!(
                        "feature set {set} answers differently from the default build: {}",
                        first_difference(d, &t)
                    ));
                }
            }
        }
    }
    st.count("probe_runs", sets.len() as u64);
    let nt = match c {
        ProbeCase::Ops { prog, hangup_after, .. } => {
            st.label("ops");
            if hangup_after.is_some() {
                st.label("ops:listener-hangs-up(frontend builds)");
            }
            let t = reference.as_ref().unwrap();
            let rich = t["handles"].as_array().map(|h| {
                h.iter().any(|x| x["depth"].as_u64().unwrap_or(0) >= 3 && x["paths"][0].as_u64().unwrap_or(0) + x["paths"][1].as_u64().unwrap_or(0) >= 4)
            });
            prog.ops.iter().any(|o| matches!(o, crate::bddmodel::Op::Restrict(..))) && rich == Some(true)
        }
        ProbeCase::Adf { calls, .. } => {
            st.label("adf");
            calls.len() >= 2
        }
    };
    if nt {
        st.nontrivial(stable_hash(&js), || json!({"case": serde_json::from_str::<Value>(&js).unwrap_or(Value::Null)}));
    }
    Ok(Outcome::Ok)
}

fn first_difference(a: &Value, b: &Value) -> String {
    match (a, b) {
        (Value::Object(x), Value::Object(y)) => {
            for (k, v) in x {
                match y.get(k) {
                    None => return format!("key {k} missing"),
                    Some(w) if w != v => return format!("{k}: {}", first_difference(v, w)),
                    _ => {}
                }
            }
            "objects differ".into()
        }
        (Value::Array(x), Value::Array(y)) => {
            if x.len() != y.len() {
                return format!("lengths {} vs {}", x.len(), y.len());
            }
            for (i, (v, w)) in x.iter().zip(y).enumerate() {
                if v != w {
                    return format!("[{i}] {}", first_difference(v, w));
                }
            }
            "arrays differ".into()
        }
        _ => format!("default {a} vs {b}"),
    }
}

pub fn probe_ops_case() -> BoxedStrategy<ProbeCase> {
    (program(6, 40, true), any::<u8>(), proptest::option::weighted(0.25, any::<u8>()), proptest::bool::weighted(0.2))
        .prop_map(|(prog, goal_var, hangup_after, mirror)| {
            // a serde / rebuild re-materialisation detaches the sender anyway: hang-ups only on plain programs
            let plain = !prog.ops.iter().any(|o| matches!(o, crate::bddmodel::Op::Serde | crate::bddmodel::Op::Rebuild | crate::bddmodel::Op::AdfNodeList | crate::bddmodel::Op::AdfSerde | crate::bddmodel::Op::SerdeNoFix | crate::bddmodel::Op::RebuildStream | crate::bddmodel::Op::SerdePartialCache(_)));
            ProbeCase::Ops { prog, goal_var, hangup_after: if plain { hangup_after } else { None }, mirror: plain && mirror }
        })
        .boxed()
}

pub fn c12_check_entry(c: &ProbeCase, st: &mut Stats) -> CheckResult {
    c12_check(c, st)
}

fn probe_case() -> BoxedStrategy<ProbeCase> {
    let ops = probe_ops_case();
    let adf = (
        gen::adf_case(gen::adf_small(1, 5), LabelClass::Quoted),
        sort_strategy(),
        0u8..4,
        proptest::collection::vec(calls::call_strategy(true), 1..7),
    )
        .prop_map(|(a, sort, backend, mut calls)| {
            // every case also asks the query kinds named in the property
            calls.push(Call::PathQueries);
            calls.push(Call::FormulaCountsNaive);
            ProbeCase::Adf {
                acs: a.acs,
                labels: a.labels,
                layout: a.layout,
                sort,
                backend,
                calls,
            }
        });
    prop_oneof![ops, adf].boxed()
}

pub fn c12(tier: Tier) -> PropSpec {
    PropSpec {
        id: "C12",
        level: "exploration",
        rule: "each generated case (operation sequence incl. restrict / re-materialisation with all read-only queries, or ADF x back-end x \
               API-call history) is executed by 12 probe binaries = the same executor compiled against adf_bdd under \
               {none, adhoccounting, adhoccountmodels} x variablelist on/off x frontend on/off. Each probe self-checks against the shadow \
               model / definitional oracle (C06, C07, C13, C01-C05 style; max_depth is queried FIRST on a store without memoised counts; \
               memoised model counts are checked wherever documented to work, i.e. in all builds but adhoccounting-without- \
               adhoccountmodels) and emits a canonical handle-free transcript (truth tables, T/F/u answers in order, counts, depth, \
               supports, cubes); every transcript must equal the default build's. Non-trivial: op sequence with a restrict and a diagram \
               of depth >= 3 with >= 4 paths, or ADF history with >= 2 calls.",
        assumptions: vec![
            "the binary crates' own feature matrices are not multiplied in",
            "shadow model / oracle as in C06, C07, C13, C01-C05",
        ],
        exhaustive: false,
        parts: vec![Part::with_shrink("probes", tier.pick(1500, 15000), 200, probe_case, c12_check)],
    }
}
