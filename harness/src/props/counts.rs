//! C13: counts, depth, supports, impacts and path cubes of diagrams.

use crate::bddmodel::*;
use crate::engine::*;
use crate::props::sem::{build_native_like, sem_case, Backend, SemCase};
use crate::sut;
use adf_bdd::datatypes::{ModelCounts, Term};
use proptest::prelude::*;
use serde::{Deserialize, Serialize};
use serde_json::json;

pub use crate::queries::{check_queries, check_ratio};

#[derive(Clone, Debug, Serialize, Deserialize)]
pub struct QueryCase {
    pub prog: Program,
    pub goal_var: u8,
}

fn c13_ops(c: &QueryCase, st: &mut Stats) -> CheckResult {
    let k = c.prog.k as usize;
    let mut sh = Shadow::new(k).with_spread(c.prog.spread);
    for (i, op) in c.prog.ops.iter().enumerate() {
        sh.step(op).map_err(|e| format!("step {i}: {e}"))?;
    }
    let termlist: Vec<(Term, Table)> = sh
        .issued
        .iter()
        .rev()
        .take(8)
        .map(|(h, t, _)| (*h, t.clone()))
        .collect();
    let gv = (c.goal_var as usize) % (k + 1);
    let mut nt = false;
    for (h, t, _) in &sh.issued {
        nt |= crate::queries::check_queries_mapped(&sh.bdd, k, *h, t, &termlist, gv, false, &sh.vm)?;
    }
    st.count("diagrams_queried", sh.issued.len() as u64);
    if nt {
        st.nontrivial(stable_hash(&(&c.prog, gv)), || {
            json!({"k": k, "goal_var": gv, "ops": c.prog.ops.iter().map(|o| format!("{o:?}")).collect::<Vec<_>>()})
        });
    }
    Ok(Outcome::Ok)
}

pub fn c13_ops_entry(prog: &Program, goal_var: u8, st: &mut Stats) -> CheckResult {
    c13_ops(&QueryCase { prog: prog.clone(), goal_var }, st)
}

fn c13_pairs(c: &(usize, usize), st: &mut Stats) -> CheckResult {
    let mc: ModelCounts = (c.0, c.1).into();
    if mc.cmodels != c.0 || mc.models != c.1 {
        return Err("ModelCounts::from((cmodels, models)) stores the pair differently".into());
    }
    if mc.more_models() != (mc.models >= mc.cmodels) {
        return Err(format!(
            "more_models() = {} for models={} cmodels={}",
            mc.more_models(),
            mc.models,
            mc.cmodels
        ));
    }
    if mc.minimum() != mc.models.min(mc.cmodels) {
        return Err(format!("minimum() = {} for {mc:?}", mc.minimum()));
    }
    if c.0 != c.1 {
        st.nontrivial(stable_hash(c), || json!({"cmodels": c.0, "models": c.1}));
    }
    Ok(Outcome::Ok)
}

fn c13_adf(c: &SemCase, st: &mut Stats) -> CheckResult {
    let text = c.adf.text();
    let n = c.adf.n();
    let res = sut::with_parser(&text, c.sort, |p| -> Result<bool, String> {
        let names: Vec<String> = p.var_container().names().read().unwrap().clone();
        let perm = sut::perm_from_names(&names, &c.adf.labels)?;
        let mut nt = false;
        for b in [Backend::Native, Backend::HybridNoPre] {
            let mut a = build_native_like(p, b);
            let fc = a.formulacounts(false);
            if fc.len() != n {
                return Err(format!("formulacounts returned {} entries for {n} statements", fc.len()));
            }
            for (li, mc) in fc.iter().enumerate() {
                let f = &c.adf.acs[perm[li]];
                // count over logical assignments (the count is invariant under renaming variables)
                let sat = (0..(1u64 << n)).filter(|&x| f.eval_bits(x)).count() as u64;
                check_ratio(&format!("{b:?}.formulacounts(false)[{li}]"), *mc, sat, (1u64 << n) - sat)?;
                if *mc != a.bdd.models(a.ac[li], false) {
                    return Err("formulacounts(false) differs from Bdd::models(ac, false)".into());
                }
                nt |= sat > 0 && sat < (1 << n) && f.support().len() >= 3;
            }
            let g = a.grounded();
            let facets = a.facet_count(&g);
            for (li, (mc, _)) in facets.iter().enumerate() {
                let t = sut::table_of(&a.bdd, g[li], n)?;
                let sat = t_count(&t);
                check_ratio(&format!("{b:?}.facet_count(grounded)[{li}].models"), *mc, sat, (1u64 << n) - sat)?;
            }
            // diagram queries on the acceptance conditions themselves
            let termlist: Vec<(Term, Table)> = a
                .ac
                .iter()
                .map(|t| Ok((*t, sut::table_of(&a.bdd, *t, n)?)))
                .collect::<Result<_, String>>()?;
            for (li, (h, t)) in termlist.iter().enumerate() {
                check_queries(&a.bdd, n, *h, t, &termlist, li, false)?;
            }
        }
        Ok(nt)
    });
    match res {
        Err(e) => Err(format!("well-formed input rejected: {e}")),
        Ok(Err(e)) => Err(e),
        Ok(Ok(nt)) => {
            if nt {
                st.nontrivial(crate::props::sem::case_hash(c), || json!({"text": text}));
            }
            Ok(Outcome::Ok)
        }
    }
}

pub fn c13(tier: Tier) -> PropSpec {
    let (k, ops) = tier.pick((6u8, 40usize), (10u8, 120usize));
    PropSpec {
        id: "C13",
        level: "exploration",
        rule: "diagrams = all handles issued by generated operation sequences (k<=6, thorough 10) and the acceptance conditions of \
               generated ADFs; for each: paths (both flags) vs own DFS path counts, models(naive) in the exact ratio #sat:#unsat of the \
               shadow truth table, max_depth vs longest path, var_dependencies vs semantic support, passive/active impact vs supports, \
               interpretations() cubes for both goals and a generated goal variable (incl. one outside the diagram): duplicate-free, \
               pairwise disjoint, exact cover on the goal half-space; ModelCounts::more_models/minimum on generated pairs; \
               Adf::formulacounts(false) and facet_count model counts. Memoised model counts are excluded in the default build \
               (documented exception; they are checked in C12's builds without adhoccounting). Non-trivial: non-constant diagram \
               with >= 4 nodes and branches of different depth.",
        assumptions: vec!["bddmodel.rs truth tables; own DFS over the public node table"],
        exhaustive: false,
        parts: vec![
            Part::new(
                "ops",
                tier.pick(30000, 300000),
                move || {
                    (program(k, ops, true), any::<u8>())
                        .prop_map(|(prog, goal_var)| QueryCase { prog, goal_var })
                        .boxed()
                },
                c13_ops,
            ),
            Part::new(
                "pairs",
                tier.pick(20000, 200000),
                || {
                    prop_oneof![
                        (0usize..6, 0usize..6),
                        (any::<u16>().prop_map(|x| x as usize), any::<u16>().prop_map(|x| x as usize)),
                        any::<usize>().prop_map(|x| (x, x)),
                        (any::<usize>(), any::<usize>()),
                    ]
                    .boxed()
                },
                c13_pairs,
            ),
            Part::new("adf", tier.pick(15000, 150000), || sem_case(1, 6), c13_adf),
            // the same queries under every cargo feature set (probe binaries of C12, op sequences only)
            Part::with_shrink(
                "feature-lanes",
                tier.pick(400, 4000),
                200,
                crate::props::features::probe_ops_case,
                crate::props::features::c12_check_entry,
            ),
            Part::with_shrink(
                "cli-counter",
                tier.pick(200, 2000),
                300,
                crate::props::cli::cli_counter_strategy,
                crate::props::cli::cli_counter_check,
            ),
        ],
    }
}
