//! C13: counts, depth, supports, impacts and path cubes of diagrams.

use crate::bddmodel::*;
use crate::engine::*;
use crate::props::sem::{build_native_like, sem_case, Backend, SemCase};
use crate::sut;
use adf_bdd::datatypes::{ModelCounts, Term, Var};
use adf_bdd::obdd::Bdd;
use proptest::prelude::*;
use serde::{Deserialize, Serialize};
use serde_json::json;
use std::collections::{BTreeSet, HashMap};

/// (paths to bot, paths to top, depth, min depth) by own DFS over the public node table
fn dfs(bdd: &Bdd, t: Term, memo: &mut HashMap<usize, (u128, u128, usize, usize)>) -> (u128, u128, usize, usize) {
    if t == Term::TOP {
        return (0, 1, 0, 0);
    }
    if t == Term::BOT {
        return (1, 0, 0, 0);
    }
    if let Some(r) = memo.get(&t.value()) {
        return *r;
    }
    let n = bdd.nodes[t.value()];
    let l = dfs(bdd, n.lo(), memo);
    let h = dfs(bdd, n.hi(), memo);
    let r = (l.0 + h.0, l.1 + h.1, 1 + l.2.max(h.2), 1 + l.3.min(h.3));
    memo.insert(t.value(), r);
    r
}

fn reachable_nodes(bdd: &Bdd, t: Term) -> usize {
    let mut seen = BTreeSet::new();
    let mut stack = vec![t.value()];
    while let Some(i) = stack.pop() {
        if i < 2 || !seen.insert(i) {
            continue;
        }
        stack.push(bdd.nodes[i].lo().value());
        stack.push(bdd.nodes[i].hi().value());
    }
    seen.len()
}

pub fn check_ratio(what: &str, mc: ModelCounts, sat: u64, unsat: u64) -> Result<(), String> {
    let (m, c) = (mc.models as u128, mc.cmodels as u128);
    if m + c == 0 {
        return Err(format!("{what}: both counts are zero"));
    }
    if m * unsat as u128 != c * sat as u128 {
        return Err(format!(
            "{what}: models={m} cmodels={c} is not in the ratio of {sat} satisfying to {unsat} falsifying assignments"
        ));
    }
    Ok(())
}

/// All read-only queries on handle `h` whose function (over k variables) is `t`.
/// `memo_models_valid`: whether memoised model counts are documented to work in this build.
pub fn check_queries(
    bdd: &Bdd,
    k: usize,
    h: Term,
    t: &Table,
    termlist: &[(Term, Table)],
    goal_var: usize,
    memo_models_valid: bool,
) -> Result<bool, String> {
    let mut memo = HashMap::new();
    let (p0, p1, depth, mindepth) = dfs(bdd, h, &mut memo);
    let hv = h.value();
    // paths
    for flag in [true, false] {
        let pc = bdd.paths(h, flag);
        if pc.cmodels as u128 != p0 || pc.models as u128 != p1 {
            return Err(format!(
                "paths({hv},{flag}) = (to-bot {}, to-top {}) but the diagram has {p0} paths to bot and {p1} to top",
                pc.cmodels, pc.models
            ));
        }
    }
    // models
    let sat = t_count(t);
    let unsat = rows(k) as u64 - sat;
    let naive = bdd.models(h, false);
    check_ratio(&format!("models({hv},naive)"), naive, sat, unsat)?;
    if memo_models_valid {
        let m = bdd.models(h, true);
        check_ratio(&format!("models({hv},memoised)"), m, sat, unsat)?;
        if m != naive {
            return Err(format!("models({hv}): naive {naive:?} and memoised {m:?} disagree"));
        }
    }
    // depth
    let d = bdd.max_depth(h);
    if d != depth {
        return Err(format!("max_depth({hv}) = {d} but the longest root-to-leaf path has {depth} edges"));
    }
    // dependencies
    let sup: BTreeSet<usize> = t_support(k, t).into_iter().collect();
    let deps: BTreeSet<usize> = bdd.var_dependencies(h).into_iter().map(|v| v.value()).collect();
    if deps != sup {
        return Err(format!(
            "var_dependencies({hv}) = {deps:?} but the function depends exactly on {sup:?}"
        ));
    }
    // impacts
    if !termlist.is_empty() {
        let terms: Vec<Term> = termlist.iter().map(|x| x.0).collect();
        for v in 0..k.max(terms.len()).min(12) {
            let exp = termlist
                .iter()
                .filter(|(_, tt)| v < k && t_support(k, tt).contains(&v))
                .count();
            let got = bdd.passive_var_impact(Var(v), &terms);
            if got != exp {
                return Err(format!(
                    "passive_var_impact(var {v}) = {got} but {exp} of the listed diagrams depend on it"
                ));
            }
        }
        for v in 0..terms.len() {
            let s = t_support(k, &termlist[v].1);
            let exp = (0..terms.len()).filter(|i| s.contains(i)).count();
            let got = bdd.active_var_impact(Var(v), &terms);
            if got != exp {
                return Err(format!(
                    "active_var_impact(var {v}) = {got} but diagram #{v} depends on {exp} of the listed positions"
                ));
            }
        }
    }
    // path cubes
    for goal in [true, false] {
        let cubes = bdd.interpretations(h, goal, Var(goal_var), &[], &[]);
        if hv < 2 {
            if !cubes.is_empty() {
                return Err("interpretations() of a constant yields cubes".into());
            }
            continue;
        }
        let mut masks: Vec<(u64, u64)> = Vec::new(); // (care, value)
        for (neg, pos) in &cubes {
            let mut care = 0u64;
            let mut val = 0u64;
            for v in neg {
                if care >> v.value() & 1 == 1 {
                    return Err(format!("cube ({neg:?},{pos:?}) mentions variable {} twice", v.value()));
                }
                care |= 1 << v.value();
            }
            for v in pos {
                if care >> v.value() & 1 == 1 {
                    return Err(format!("cube ({neg:?},{pos:?}) mentions variable {} twice", v.value()));
                }
                care |= 1 << v.value();
                val |= 1 << v.value();
            }
            masks.push((care, val));
        }
        for i in 0..masks.len() {
            for j in 0..i {
                let common = masks[i].0 & masks[j].0;
                if (masks[i].1 ^ masks[j].1) & common == 0 {
                    return Err(format!(
                        "interpretations({hv},goal={goal},goal_var={goal_var}): cubes {:?} and {:?} overlap",
                        cubes[j], cubes[i]
                    ));
                }
            }
        }
        for a in 0..rows(k) {
            if goal_var < k && ((a >> goal_var) & 1 == 1) != goal {
                continue;
            }
            let covered = masks.iter().any(|(care, val)| (a as u64 ^ val) & care == 0);
            let wanted = t_get(t, a) == goal;
            if covered != wanted {
                return Err(format!(
                    "interpretations({hv},goal={goal},goal_var={goal_var}): assignment {a:#b} is {} by the cubes but f={}",
                    if covered { "covered" } else { "not covered" },
                    t_get(t, a)
                ));
            }
        }
    }
    Ok(hv >= 2 && reachable_nodes(bdd, h) >= 4 && depth != mindepth)
}

#[derive(Clone, Debug, Serialize, Deserialize)]
pub struct QueryCase {
    pub prog: Program,
    pub goal_var: u8,
}

fn c13_ops(c: &QueryCase, st: &mut Stats) -> CheckResult {
    let k = c.prog.k as usize;
    let mut sh = Shadow::new(k);
    for (i, op) in c.prog.ops.iter().enumerate() {
        sh.step(op).map_err(|e| format!("step {i}: {e}"))?;
    }
    let termlist: Vec<(Term, Table)> = sh
        .issued
        .iter()
        .rev()
        .take(8)
        .map(|(h, t, _)| (*h, t.clone()))
        .collect();
    let gv = (c.goal_var as usize) % (k + 1);
    let mut nt = false;
    for (h, t, _) in &sh.issued {
        nt |= check_queries(&sh.bdd, k, *h, t, &termlist, gv, false)?;
    }
    st.count("diagrams_queried", sh.issued.len() as u64);
    if nt {
        st.nontrivial(stable_hash(&(&c.prog, gv)), || {
            json!({"k": k, "goal_var": gv, "ops": c.prog.ops.iter().map(|o| format!("{o:?}")).collect::<Vec<_>>()})
        });
    }
    Ok(Outcome::Ok)
}

fn c13_pairs(c: &(usize, usize), st: &mut Stats) -> CheckResult {
    let mc: ModelCounts = (c.0, c.1).into();
    if mc.cmodels != c.0 || mc.models != c.1 {
        return Err("ModelCounts::from((cmodels, models)) stores the pair differently".into());
    }
    if mc.more_models() != (mc.models >= mc.cmodels) {
        return Err(format!(
            "more_models() = {} for models={} cmodels={}",
            mc.more_models(),
            mc.models,
            mc.cmodels
        ));
    }
    if mc.minimum() != mc.models.min(mc.cmodels) {
        return Err(format!("minimum() = {} for {mc:?}", mc.minimum()));
    }
    if c.0 != c.1 {
        st.nontrivial(stable_hash(c), || json!({"cmodels": c.0, "models": c.1}));
    }
    Ok(Outcome::Ok)
}

fn c13_adf(c: &SemCase, st: &mut Stats) -> CheckResult {
    let text = c.adf.text();
    let n = c.adf.n();
    let res = sut::with_parser(&text, c.sort, |p| -> Result<bool, String> {
        let names: Vec<String> = p.var_container().names().read().unwrap().clone();
        let perm = sut::perm_from_names(&names, &c.adf.labels)?;
        let mut nt = false;
        for b in [Backend::Native, Backend::HybridNoPre] {
            let mut a = build_native_like(p, b);
            let fc = a.formulacounts(false);
            if fc.len() != n {
                return Err(format!("formulacounts returned {} entries for {n} statements", fc.len()));
            }
            for (li, mc) in fc.iter().enumerate() {
                let f = &c.adf.acs[perm[li]];
                // count over logical assignments (the count is invariant under renaming variables)
                let sat = (0..(1u64 << n)).filter(|&x| f.eval_bits(x)).count() as u64;
                check_ratio(&format!("{b:?}.formulacounts(false)[{li}]"), *mc, sat, (1u64 << n) - sat)?;
                if *mc != a.bdd.models(a.ac[li], false) {
                    return Err("formulacounts(false) differs from Bdd::models(ac, false)".into());
                }
                nt |= sat > 0 && sat < (1 << n) && f.support().len() >= 3;
            }
            let g = a.grounded();
            let facets = a.facet_count(&g);
            for (li, (mc, _)) in facets.iter().enumerate() {
                let t = sut::table_of(&a.bdd, g[li], n)?;
                let sat = t_count(&t);
                check_ratio(&format!("{b:?}.facet_count(grounded)[{li}].models"), *mc, sat, (1u64 << n) - sat)?;
            }
            // diagram queries on the acceptance conditions themselves
            let termlist: Vec<(Term, Table)> = a
                .ac
                .iter()
                .map(|t| Ok((*t, sut::table_of(&a.bdd, *t, n)?)))
                .collect::<Result<_, String>>()?;
            for (li, (h, t)) in termlist.iter().enumerate() {
                check_queries(&a.bdd, n, *h, t, &termlist, li, false)?;
            }
        }
        Ok(nt)
    });
    match res {
        Err(e) => Err(format!("well-formed input rejected: {e}")),
        Ok(Err(e)) => Err(e),
        Ok(Ok(nt)) => {
            if nt {
                st.nontrivial(crate::props::sem::case_hash(c), || json!({"text": text}));
            }
            Ok(Outcome::Ok)
        }
    }
}

pub fn c13(tier: Tier) -> PropSpec {
    let (k, ops) = tier.pick((6u8, 40usize), (10u8, 120usize));
    PropSpec {
        id: "C13",
        level: "exploration",
        rule: "diagrams = all handles issued by generated operation sequences (k<=6, thorough 10) and the acceptance conditions of \
               generated ADFs; for each: paths (both flags) vs own DFS path counts, models(naive) in the exact ratio #sat:#unsat of the \
               shadow truth table, max_depth vs longest path, var_dependencies vs semantic support, passive/active impact vs supports, \
               interpretations() cubes for both goals and a generated goal variable (incl. one outside the diagram): duplicate-free, \
               pairwise disjoint, exact cover on the goal half-space; ModelCounts::more_models/minimum on generated pairs; \
               Adf::formulacounts(false) and facet_count model counts. Memoised model counts are excluded in the default build \
               (documented exception; they are checked in C12's builds without adhoccounting). Non-trivial: non-constant diagram \
               with >= 4 nodes and branches of different depth.",
        assumptions: vec!["bddmodel.rs truth tables; own DFS over the public node table"],
        exhaustive: false,
        parts: vec![
            Part::new(
                "ops",
                tier.pick(4000, 50000),
                move || {
                    (program(k, ops, true), any::<u8>())
                        .prop_map(|(prog, goal_var)| QueryCase { prog, goal_var })
                        .boxed()
                },
                c13_ops,
            ),
            Part::new(
                "pairs",
                tier.pick(3000, 30000),
                || {
                    prop_oneof![
                        (0usize..6, 0usize..6),
                        (any::<u16>().prop_map(|x| x as usize), any::<u16>().prop_map(|x| x as usize)),
                        any::<usize>().prop_map(|x| (x, x)),
                        (any::<usize>(), any::<usize>()),
                    ]
                    .boxed()
                },
                c13_pairs,
            ),
            Part::new("adf", tier.pick(1500, 20000), || sem_case(1, 6), c13_adf),
            Part::with_shrink(
                "cli-counter",
                tier.pick(80, 1500),
                300,
                crate::props::cli::cli_counter_strategy,
                crate::props::cli::cli_counter_check,
            ),
        ],
    }
}
