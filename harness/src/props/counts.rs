//! C13: counts, depth, supports, impacts and path cubes of diagrams.

use crate::bddmodel::*;
use crate::engine::*;
use crate::props::sem::{build_native_like, sem_case, Backend, SemCase};
use crate::sut;
use adf_bdd::datatypes::{ModelCounts, Term};
use proptest::prelude::*;
use serde::{Deserialize, Serialize};
use serde_json::json;

pub use crate::queries::{check_queries, check_ratio};

#[derive(Clone, Debug, Serialize, Deserialize)]
pub struct QueryCase {
    pub prog: Program,
    pub goal_var: u8,
}

fn c13_ops(c: &QueryCase, st: &mut Stats) -> CheckResult {
    let k = c.prog.k as usize;
    let mut sh = Shadow::new(k).with_spread(c.prog.spread);
    for (i, op) in c.prog.ops.iter().enumerate() {
        sh.step(op).map_err(|e| format!("step {i}: {e}"))?;
    }
    let termlist: Vec<(Term, Table)> = sh
        .issued
        .iter()
        .rev()
        .take(8)
        .map(|(h, t, _)| (*h, t.clone()))
        .collect();
    let gv = (c.goal_var as usize) % (k + 1);
    let mut nt = false;
    for (h, t, _) in &sh.issued {
        nt |= crate::queries::check_queries_mapped(&sh.bdd, k, *h, t, &termlist, gv, false, &sh.vm)?;
    }
    st.count("diagrams_queried", sh.issued.len() as u64);
    if nt {
        st.nontrivial(stable_hash(&(&c.prog, gv)), || {
            json!({"k": k, "goal_var": gv, "ops": c.prog.ops.iter().map(|o| format!("{o:?}")).collect::<Vec<_>>()})
        });
    }
    Ok(Outcome::Ok)
}

pub fn c13_ops_entry(prog: &Program, goal_var: u8, st: &mut Stats) -> CheckResult {
    c13_ops(&QueryCase { prog: prog.clone(), goal_var }, st)
}

fn c13_pairs(c: &(usize, usize), st: &mut Stats) -> CheckResult {
    let mc: ModelCounts = (c.0, c.1).into();
    if mc.cmodels != c.0 || mc.models != c.1 {
        return Err("ModelCounts::from((cmodels, models)) stores the pair differently".into());
    }
    if mc.more_models() != (mc.models >= mc.cmodels) {
        return Err(format!(
            "more_models() = {} for models={} cmodels={}",
            mc.more_models(),
            mc.models,
            mc.cmodels
        ));
    }
    if mc.minimum() != mc.models.min(mc.cmodels) {
        return Err(format!("minimum() = {} for {mc:?}", mc.minimum()));
    }
    if c.0 != c.1 {
        st.nontrivial(stable_hash(c), || json!({"cmodels": c.0, "models": c.1}));
    }
    Ok(Outcome::Ok)
}

fn c13_adf(c: &SemCase, st: &mut Stats) -> CheckResult {
    let text = c.adf.text();
    let n = c.adf.n();
    let res = sut::with_parser(&text, c.sort, |p| -> Result<bool, String> {
        let names: Vec<String> = p.var_container().names().read().unwrap().clone();
        let perm = sut::perm_from_names(&names, &c.adf.labels)?;
        let mut nt = false;
        for b in [Backend::Native, Backend::HybridNoPre] {
            let mut a = build_native_like(p, b);
            let fc = a.formulacounts(false);
            if fc.len() != n {
                return Err(format!("formulacounts returned {} entries for {n} statements", fc.len()));
            }
            for (li, mc) in fc.iter().enumerate() {
                let f = &c.adf.acs[perm[li]];
                // count over logical assignments (the count is invariant under renaming variables)
                let sat = (0..(1u64 << n)).filter(|&x| f.eval_bits(x)).count() as u64;
                check_ratio(&format!("{b:?}.formulacounts(false)[{li}]"), *mc, sat, (1u64 << n) - sat)?;
                if *mc != a.bdd.models(a.ac[li], false) {
                    return Err("formulacounts(false) differs from Bdd::models(ac, false)".into());
                }
                nt |= sat > 0 && sat < (1 << n) && f.support().len() >= 3;
            }
            let g = a.grounded();
            let facets = a.facet_count(&g);
            for (li, (mc, _)) in facets.iter().enumerate() {
                let t = sut::table_of(&a.bdd, g[li], n)?;
                let sat = t_count(&t);
                check_ratio(&format!("{b:?}.facet_count(grounded)[{li}].models"), *mc, sat, (1u64 << n) - sat)?;
            }
            // diagram queries on the acceptance conditions themselves
            let termlist: Vec<(Term, Table)> = a
                .ac
                .iter()
                .map(|t| Ok((*t, sut::table_of(&a.bdd, *t, n)?)))
                .collect::<Result<_, String>>()?;
            for (li, (h, t)) in termlist.iter().enumerate() {
                check_queries(&a.bdd, n, *h, t, &termlist, li, false)?;
            }
        }
        Ok(nt)
    });
    match res {
        Err(e) => Err(format!("well-formed input rejected: {e}")),
        Ok(Err(e)) => Err(e),
        Ok(Ok(nt)) => {
            if nt {
                st.nontrivial(crate::props::sem::case_hash(c), || json!({"text": text}));
            }
            Ok(Outcome::Ok)
        }
    }
}

/// Deep diagrams over 20..60 variables (children of very different depth): chains of literals joined by and / or /
/// xor, two or three of them put under selector variables.
#[derive(Clone, Debug, Serialize, Deserialize, Hash)]
pub struct DeepCase {
    /// number of variables (<= 60: every count fits a machine word, every depth gap is < 64)
    pub vars: u8,
    /// chains: (first variable, length, per position: (connective 0 and / 1 or / 2 xor, literal polarity, skip this variable))
    pub chains: Vec<(u8, u8, Vec<(u8, bool, bool)>)>,
    /// how the chains are joined under the selector variables (0 = if-then-else, 1 = and, 2 = or, 3 = xor)
    pub join: u8,
    pub memo_first: bool,
}

fn deep_case() -> BoxedStrategy<DeepCase> {
    (20u8..=60, proptest::collection::vec((any::<u8>(), any::<u8>(), proptest::collection::vec((0u8..3, any::<bool>(), proptest::bool::weighted(0.15)), 60)), 1..=3), 0u8..4, any::<bool>())
        .prop_map(|(vars, chains, join, memo_first)| DeepCase { vars, chains, join, memo_first })
        .boxed()
}

fn c13_deep(c: &DeepCase, st: &mut Stats) -> CheckResult {
    use adf_bdd::datatypes::Var;
    use adf_bdd::obdd::Bdd;
    let v = c.vars as usize;
    let mut bdd = Bdd::new();
    // selectors are the first variables; chains live on variables 3..v, built bottom-up (cheap: the new literal is above the rest)
    let mut roots: Vec<Term> = Vec::new();
    for (first, len, spec) in &c.chains {
        let lo = 3 + (*first as usize) % (v - 3);
        let hi = (lo + 1 + (*len as usize) % (v - lo)).min(v);
        let mut acc: Option<Term> = None;
        for i in (lo..hi).rev() {
            let (con, pol, skip) = spec[i % spec.len()];
            if skip && i != lo {
                continue;
            }
            let x = bdd.variable(Var(i));
            let lit = if pol { x } else { bdd.not(x) };
            acc = Some(match acc {
                None => lit,
                Some(a) => match con {
                    0 => bdd.and(lit, a),
                    1 => bdd.or(lit, a),
                    _ => bdd.xor(lit, a),
                },
            });
        }
        roots.push(acc.unwrap_or(Term::TOP));
    }
    let mut all = roots.clone();
    let mut top = roots[0];
    for (i, r) in roots.iter().enumerate().skip(1) {
        let sel = bdd.variable(Var(i - 1));
        top = match c.join {
            0 => {
                let nsel = bdd.not(sel);
                let a = bdd.and(sel, top);
                let b = bdd.and(nsel, *r);
                bdd.or(a, b)
            }
            1 => {
                let a = bdd.or(sel, *r);
                bdd.and(a, top)
            }
            2 => {
                let a = bdd.and(sel, *r);
                bdd.or(a, top)
            }
            _ => {
                let a = bdd.and(sel, *r);
                bdd.xor(a, top)
            }
        };
        all.push(top);
    }
    // one more level on top: a selector directly above a deep diagram and a constant (depth gap = whole depth)
    let s2 = bdd.variable(Var(2));
    let g = bdd.and(s2, top);
    all.push(g);
    let g2 = bdd.or(s2, top);
    all.push(g2);
    if bdd.nodes.len() > 200_000 {
        return Ok(Outcome::Ok);
    }
    // own counting over the public node table by variable LEVELS (not by depth): number of satisfying assignments over all
    // v variables, with the gaps between a node's variable and its children's variables
    fn sat(bdd: &adf_bdd::obdd::Bdd, t: Term, v: usize, memo: &mut std::collections::HashMap<usize, u128>) -> u128 {
        // satisfying assignments of the variables from var(t) (incl.) to v-1; constants: level v
        if t == Term::TOP {
            return 1;
        }
        if t == Term::BOT {
            return 0;
        }
        if let Some(r) = memo.get(&t.value()) {
            return *r;
        }
        let n = bdd.nodes[t.value()];
        let lvl = |x: Term| if x.is_truth_value() { v } else { bdd.nodes[x.value()].var().value() };
        let here = n.var().value();
        let l = sat(bdd, n.lo(), v, memo) << (lvl(n.lo()) - here - 1);
        let h = sat(bdd, n.hi(), v, memo) << (lvl(n.hi()) - here - 1);
        memo.insert(t.value(), l + h);
        l + h
    }
    let mut memo = std::collections::HashMap::new();
    let mut dmemo = std::collections::HashMap::new();
    let mut max_gap = 0usize;
    for &h in &all {
        if h.is_truth_value() {
            continue;
        }
        let top_var = bdd.nodes[h.value()].var().value();
        let total: u128 = 1u128 << (v - top_var);
        let s = sat(&bdd, h, v, &mut memo);
        let (p0, p1, depth, mind) = crate::queries::dfs(&bdd, h, &mut dmemo);
        max_gap = max_gap.max(depth - mind);
        let flags = if c.memo_first { [true, false] } else { [false, true] };
        for flag in flags {
            // memoised model counts are the documented exception of the default build
            if flag {
                continue;
            }
            let m = bdd.models(h, flag);
            let (mm, cc) = (m.models as u128, m.cmodels as u128);
            if mm + cc == 0 || mm * (total - s) != cc * s {
                return Err(format!(
                    "models({}, {flag}) = (models {mm}, counter-models {cc}) for a diagram over {} variables (depth {depth}, shortest path {mind}) \
                     with {s} of {total} satisfying assignments",
                    h.value(),
                    v - top_var
                ));
            }
            if mm + cc != 1u128 << depth {
                return Err(format!("models({}, {flag}): models + counter-models = {} but the diagram has depth {depth}", h.value(), mm + cc));
            }
        }
        for flag in [false, true] {
            let p = bdd.paths(h, flag);
            if p.cmodels as u128 != p0 || p.models as u128 != p1 {
                return Err(format!("paths({}, {flag}) = ({}, {}) but the diagram has {p0} / {p1} paths", h.value(), p.cmodels, p.models));
            }
        }
        if bdd.max_depth(h) != depth {
            return Err(format!("max_depth({}) = {} but the longest path has {depth} edges", h.value(), bdd.max_depth(h)));
        }
        let mut reach = std::collections::BTreeSet::new();
        let mut stack = vec![h];
        let mut seen = std::collections::HashSet::new();
        while let Some(t) = stack.pop() {
            if t.is_truth_value() || !seen.insert(t) {
                continue;
            }
            let n = bdd.nodes[t.value()];
            reach.insert(n.var().value());
            stack.push(n.lo());
            stack.push(n.hi());
        }
        let deps: std::collections::BTreeSet<usize> = bdd.var_dependencies(h).into_iter().map(|x| x.value()).collect();
        if deps != reach {
            return Err(format!("var_dependencies({}) lists {} variables, the diagram tests {}", h.value(), deps.len(), reach.len()));
        }
    }
    st.label(&format!("max_depth_gap>={}", (max_gap / 10) * 10));
    if max_gap >= 16 {
        st.nontrivial(stable_hash(c), || json!({"vars": v, "nodes": bdd.nodes.len(), "max_depth_gap": max_gap}));
    }
    Ok(Outcome::Ok)
}

pub fn c13(tier: Tier) -> PropSpec {
    let (k, ops) = tier.pick((6u8, 40usize), (10u8, 120usize));
    PropSpec {
        id: "C13",
        level: "exploration",
        rule: "diagrams = all handles issued by generated operation sequences (k<=6, thorough 10) and the acceptance conditions of \
               generated ADFs; for each: paths (both flags) vs own DFS path counts, models(naive) in the exact ratio #sat:#unsat of the \
               shadow truth table, max_depth vs longest path, var_dependencies vs semantic support, passive/active impact vs supports, \
               interpretations() cubes for both goals and a generated goal variable (incl. one outside the diagram): duplicate-free, \
               pairwise disjoint, exact cover on the goal half-space; ModelCounts::more_models/minimum on generated pairs; \
               Adf::formulacounts(false) and facet_count model counts. Memoised model counts are excluded in the default build \
               (documented exception; they are checked in C12's builds without adhoccounting). Non-trivial: non-constant diagram \
               with >= 4 nodes and branches of different depth.",
        assumptions: vec!["bddmodel.rs truth tables; own DFS over the public node table"],
        exhaustive: false,
        parts: vec![
            Part::new(
                "ops",
                tier.pick(30000, 300000),
                move || {
                    (program(k, ops, true), any::<u8>())
                        .prop_map(|(prog, goal_var)| QueryCase { prog, goal_var })
                        .boxed()
                },
                c13_ops,
            ),
            Part::new(
                "pairs",
                tier.pick(20000, 200000),
                || {
                    prop_oneof![
                        (0usize..6, 0usize..6),
                        (any::<u16>().prop_map(|x| x as usize), any::<u16>().prop_map(|x| x as usize)),
                        any::<usize>().prop_map(|x| (x, x)),
                        (any::<usize>(), any::<usize>()),
                    ]
                    .boxed()
                },
                c13_pairs,
            ),
            Part::new("adf", tier.pick(15000, 150000), || sem_case(1, 6), c13_adf),
            // deep diagrams over 20..60 variables: depth gaps of 16..59 between the children of a node
            Part::new("deep", tier.pick(6000, 60000), deep_case, c13_deep),
            // depths up to 100, around 64 favoured: counts that fit are exact, counts that do not fit saturate at the
            // largest machine word (own depth-based count in u128); memoised model counts are not asked (default build)
            Part::new("deep-saturating", tier.pick(6000, 60000), crate::props::features::probe_deep_case, |c: &crate::probe::ProbeCase, st: &mut Stats| {
                let mut c = c.clone();
                if let crate::probe::ProbeCase::Deep { fits_only, .. } = &mut c {
                    *fits_only = true;
                }
                let c = &c;
                let t = crate::probe::run(c, false)?;
                if let crate::probe::ProbeCase::Deep { vars, .. } = c {
                    let d = t["handles"].as_array().and_then(|h| h.iter().map(|x| x["depth"].as_u64().unwrap_or(0)).max()).unwrap_or(0);
                    st.label(if d == 64 { "depth=64" } else if d > 64 { "depth>64" } else { "depth<64" });
                    st.nontrivial(stable_hash(&serde_json::to_string(c).unwrap_or_default()), || json!({"vars": vars, "depth": d, "nodes": t["nodes"]}));
                }
                Ok(Outcome::Ok)
            }),
            // the same queries under every cargo feature set (probe binaries of C12, op sequences only)
            Part::with_shrink(
                "feature-lanes",
                tier.pick(400, 4000),
                200,
                crate::props::features::probe_ops_case,
                crate::props::features::c12_check_entry,
            ),
            Part::with_shrink(
                "cli-counter",
                tier.pick(200, 2000),
                300,
                crate::props::cli::cli_counter_strategy,
                crate::props::cli::cli_counter_check,
            ),
        ],
    }
}
