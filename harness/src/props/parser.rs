//! C08: the parser accepts the documented syntax faithfully and rejects malformed text whole.

use crate::engine::*;
use crate::formula::F;
use crate::gen::{self, AdfCase, LabelClass};
use crate::refparse;
use crate::sut;
use adf_bdd::adf::Adf;
use adf_bdd::adfbiodivine::Adf as BdAdf;
use adf_bdd::parser::{AdfParser, Formula};
use proptest::prelude::*;
use serde::{Deserialize, Serialize};
use serde_json::json;

pub fn eval_lib_formula(f: &Formula, v: &dyn Fn(&str) -> bool) -> bool {
    match f {
        Formula::Bot => false,
        Formula::Top => true,
        Formula::Atom(a) => v(a),
        Formula::Not(a) => !eval_lib_formula(a, v),
        Formula::And(a, b) => eval_lib_formula(a, v) && eval_lib_formula(b, v),
        Formula::Or(a, b) => eval_lib_formula(a, v) || eval_lib_formula(b, v),
        Formula::Imp(a, b) => !eval_lib_formula(a, v) || eval_lib_formula(b, v),
        Formula::Xor(a, b) => eval_lib_formula(a, v) != eval_lib_formula(b, v),
        Formula::Iff(a, b) => eval_lib_formula(a, v) == eval_lib_formula(b, v),
    }
}

pub fn lib_formula_atoms<'a>(f: &Formula<'a>, out: &mut Vec<&'a str>) {
    match f {
        Formula::Bot | Formula::Top => {}
        Formula::Atom(a) => out.push(a),
        Formula::Not(a) => lib_formula_atoms(a, out),
        Formula::And(a, b) | Formula::Or(a, b) | Formula::Imp(a, b) | Formula::Xor(a, b) | Formula::Iff(a, b) => {
            lib_formula_atoms(a, out);
            lib_formula_atoms(b, out);
        }
    }
}

fn c08_accept(c: &AdfCase, st: &mut Stats) -> CheckResult {
    let (text, decl, ac_order) = gen::render_full(&c.acs, &c.labels, &c.layout);
    let n = c.n();
    // reference recogniser self-check: the generator only produces documented syntax
    let rp = refparse::parse(&text).map_err(|e| format!("ORACLE SELF-CHECK: reference recogniser rejects generated text: {e}\n{text}"))?;
    let decl_labels: Vec<String> = decl.iter().map(|&i| c.labels[i].clone()).collect();
    if rp.statements != decl_labels {
        return Err("ORACLE SELF-CHECK: reference recogniser sees other statements".into());
    }
    let hostile = c.labels.iter().any(|l| gen::is_bd_hostile(l));
    let parser = AdfParser::default();
    match parser.parse()(&text) {
        Ok((rest, ())) => {
            if !rest.is_empty() {
                return Err(format!("accepted with a non-empty rest {rest:?}"));
            }
        }
        Err(e) => return Err(format!("documented syntax rejected: {e}\ninput: {text}")),
    }
    if parser.dict_size() != n {
        return Err(format!("dict_size() = {} for {n} declared statements", parser.dict_size()));
    }
    let names: Vec<String> = parser.var_container().names().read().unwrap().clone();
    if names != decl_labels {
        return Err(format!("labels not preserved verbatim / in declaration order: {names:?} vs {decl_labels:?}"));
    }
    for (pos, l) in decl_labels.iter().enumerate() {
        if parser.dict_value(l) != Some(pos) {
            return Err(format!("dict_value({l:?}) = {:?}, expected {pos}", parser.dict_value(l)));
        }
        if parser.var_container().variable(l).map(|v| v.value()) != Some(pos)
            || parser.var_container().name(adf_bdd::datatypes::Var(pos)).as_deref() != Some(l.as_str())
        {
            return Err(format!("var_container() does not map {l:?} <-> {pos}"));
        }
    }
    if parser.dict_value("\u{1}never-declared").is_some() {
        return Err("dict_value of an undeclared label is Some".into());
    }
    if parser.ac_at(n).is_some() {
        return Err("ac_at(number of ac facts) is Some".into());
    }
    let native = Adf::from_parser(&parser);
    let bridged = if hostile {
        None
    } else {
        Some(BdAdf::from_parser(&parser).hybrid_step_opt(false))
    };
    let mut kw_or_quoted = false;
    for (i, &s) in ac_order.iter().enumerate() {
        let lf = parser.ac_at(i).ok_or_else(|| format!("ac_at({i}) is None"))?;
        let want = &c.acs[s];
        let mut atoms = Vec::new();
        lib_formula_atoms(&lf, &mut atoms);
        for a in &atoms {
            if !c.labels.iter().any(|l| l == a) {
                return Err(format!("ac_at({i}) mentions {a:?} which is not a declared label (labels must be kept verbatim)"));
            }
        }
        let sup: Vec<usize> = want.support().into_iter().collect();
        if sup.len() > 12 {
            return Err("generator produced a support > 12".into());
        }
        let li = decl.iter().position(|&d| d == s).unwrap();
        for bits in 0..(1u64 << sup.len()) {
            let val = |idx: usize| sup.iter().position(|&x| x == idx).map(|j| (bits >> j) & 1 == 1).unwrap_or(false);
            let w = want.eval(&val);
            let by_label = |l: &str| c.labels.iter().position(|x| x == l).map(&val).unwrap_or(false);
            let g = eval_lib_formula(&lf, &by_label);
            if g != w {
                return Err(format!(
                    "ac_at({i}) = {lf:?} does not denote the function written for statement {:?}: differs at assignment {bits:#b} over {sup:?}",
                    c.labels[s]
                ));
            }
            // reference recogniser agrees as well
            if rp.acs[i].1.eval(&by_label) != w || rp.acs[i].0 != c.labels[s] {
                return Err("ORACLE SELF-CHECK: reference recogniser disagrees with the generator".into());
            }
            // compiled diagrams
            let by_lib_var = |lv: usize| lv < n && val(decl[lv]);
            if sut::walk(&native.bdd, native.ac[li], &by_lib_var)? != w {
                return Err(format!(
                    "Adf::from_parser: diagram of statement {:?} differs from the written function at {bits:#b} over {sup:?}",
                    c.labels[s]
                ));
            }
            if let Some(b) = &bridged {
                if sut::walk(&b.bdd, b.ac[li], &by_lib_var)? != w {
                    return Err(format!(
                        "biodivine bridge: diagram of statement {:?} differs from the written function at {bits:#b}",
                        c.labels[s]
                    ));
                }
            }
        }
        kw_or_quoted |= want.has_binary();
    }
    // the same parser object after a re-sort: a second instantiation must attach every condition to its
    // statement under the new order
    parser.varsort_lexi();
    let names2: Vec<String> = parser.var_container().names().read().unwrap().clone();
    let mut sorted = decl_labels.clone();
    sorted.sort();
    if names2 != sorted {
        return Err(format!("after varsort_lexi the names are {names2:?}, expected byte-wise order {sorted:?}"));
    }
    let native2 = Adf::from_parser(&parser);
    for (li, nm) in names2.iter().enumerate() {
        let s = c.labels.iter().position(|l| l == nm).unwrap();
        let want = &c.acs[s];
        let sup: Vec<usize> = want.support().into_iter().collect();
        for bits in 0..(1u64 << sup.len()) {
            let val = |idx: usize| sup.iter().position(|&x| x == idx).map(|j| (bits >> j) & 1 == 1).unwrap_or(false);
            let by_lib_var = |lv: usize| lv < n && val(c.labels.iter().position(|l| l == &names2[lv]).unwrap());
            if sut::walk(&native2.bdd, native2.ac[li], &by_lib_var)? != want.eval(&val) {
                return Err(format!(
                    "second Adf::from_parser after varsort_lexi on the same parser object: diagram of statement {nm:?} differs from the written function at {bits:#b} over {sup:?}"
                ));
            }
        }
    }
    let special = c.labels.iter().any(|l| gen::needs_quotes(l) || is_keywordish(l));
    if hostile {
        st.label("bd-hostile-label(parser only)");
    }
    if c.labels.iter().any(|l| gen::needs_quotes(l)) {
        st.label("quoted-label");
    }
    if c.labels.iter().any(|l| is_keywordish(l)) {
        st.label("keyword-like-label");
    }
    if special && kw_or_quoted {
        st.nontrivial(stable_hash(&(&c.acs, &c.labels, &c.layout)), || json!({"text": text.chars().take(500).collect::<String>()}));
    }
    Ok(Outcome::Ok)
}

fn is_keywordish(l: &str) -> bool {
    ["and", "or", "neg", "imp", "iff", "xor", "c", "s", "ac", "v", "f"]
        .iter()
        .any(|k| l.starts_with(k))
}

// ------------------------------------------------------------------------------------------
// mutants

#[derive(Clone, Debug, Serialize, Deserialize, PartialEq, Eq, Hash)]
pub enum Mutation {
    DelBracket(u16),
    InsBracket(u16, bool),
    DelDot(u16),
    /// (which application, kind)
    Arity(u16, u8),
    Garbage(u8),
}

#[derive(Clone, Debug, Serialize, Deserialize)]
pub struct MutCase {
    pub adf: AdfCase,
    pub m: Mutation,
}

pub const GARBAGE: &[&str] = &["x", ".", ")", "(", "ac(a,", "foo.", "\"", "%", "s(a", "s(a)", "ac(a,b)", "?", "s(a).x", "c(v).", "neg(a)."];

/// byte offsets of characters outside quoted labels
fn outside_quotes(text: &str) -> Vec<(usize, char)> {
    let mut out = Vec::new();
    let mut inq = false;
    for (i, ch) in text.char_indices() {
        if ch == '"' {
            inq = !inq;
            continue;
        }
        if !inq {
            out.push((i, ch));
        }
    }
    out
}

struct App {
    name: String,
    open: usize,
    close: usize,
    commas: Vec<usize>,
    depth: usize,
}

/// operator applications (keyword immediately followed by "(") outside quotes, with their
/// matching bracket and top-level commas
fn applications(text: &str) -> Vec<App> {
    let chars = outside_quotes(text);
    let mut stack: Vec<App> = Vec::new();
    let mut done = Vec::new();
    let mut tok_start: Option<usize> = None; // index into chars
    for (ci, &(pos, ch)) in chars.iter().enumerate() {
        if ch.is_ascii_alphanumeric() {
            // a token is contiguous in the original text
            if tok_start.is_none() || (ci > 0 && chars[ci - 1].0 + chars[ci - 1].1.len_utf8() != pos) {
                tok_start = Some(ci);
            }
            continue;
        }
        match ch {
            '(' => {
                let name = match tok_start {
                    Some(ts) if ci > 0 && chars[ci - 1].0 + 1 == pos => text[chars[ts].0..pos].to_string(),
                    _ => String::new(),
                };
                let depth = stack.len();
                stack.push(App { name, open: pos, close: 0, commas: Vec::new(), depth });
            }
            ')' => {
                if let Some(mut a) = stack.pop() {
                    a.close = pos;
                    done.push(a);
                }
            }
            ',' => {
                if let Some(a) = stack.last_mut() {
                    a.commas.push(pos);
                }
            }
            _ => {}
        }
        tok_start = None;
    }
    done.retain(|a| a.depth >= 1 && ["c", "neg", "and", "or", "imp", "iff", "xor"].contains(&a.name.as_str()));
    done.sort_by_key(|a| a.open);
    done
}

/// returns (mutant, edit lies inside a nested formula)
pub fn mutate(text: &str, m: &Mutation) -> Option<(String, bool)> {
    let out = outside_quotes(text);
    match m {
        Mutation::DelBracket(i) => {
            let br: Vec<&(usize, char)> = out.iter().filter(|(_, c)| *c == '(' || *c == ')').collect();
            if br.is_empty() {
                return None;
            }
            let (pos, _) = *br[gen::pick(*i, br.len())];
            let mut s = text.to_string();
            s.remove(pos);
            Some((s, nested_at(text, pos)))
        }
        Mutation::InsBracket(i, open) => {
            let (pos, _) = out[gen::pick(*i, out.len())];
            let mut s = text.to_string();
            s.insert(pos, if *open { '(' } else { ')' });
            Some((s, nested_at(text, pos)))
        }
        Mutation::DelDot(i) => {
            let dots: Vec<&(usize, char)> = out.iter().filter(|(_, c)| *c == '.').collect();
            if dots.is_empty() {
                return None;
            }
            let (pos, _) = *dots[gen::pick(*i, dots.len())];
            let mut s = text.to_string();
            s.remove(pos);
            Some((s, false))
        }
        Mutation::Arity(i, kind) => {
            let apps = applications(text);
            if apps.is_empty() {
                return None;
            }
            let a = &apps[gen::pick(*i, apps.len())];
            let inner = &text[a.open + 1..a.close];
            let new_inner = match a.name.as_str() {
                "c" => match kind % 3 {
                    0 => String::new(),
                    1 => format!("{inner},{inner}"),
                    _ => format!("{inner}{inner}"),
                },
                "neg" => match kind % 2 {
                    0 => format!("{inner},{inner}"),
                    _ => String::new(),
                },
                _ => {
                    if a.commas.len() != 1 {
                        return None;
                    }
                    let cpos = a.commas[0];
                    let first = &text[a.open + 1..cpos];
                    match kind % 3 {
                        0 => first.trim_end().to_string(),
                        1 => format!("{inner},{}", first.trim_end()),
                        _ => String::new(),
                    }
                }
            };
            let s = format!("{}{}{}", &text[..a.open + 1], new_inner, &text[a.close..]);
            Some((s, a.depth >= 2))
        }
        Mutation::Garbage(g) => {
            let garbage = GARBAGE[(*g as usize) % GARBAGE.len()];
            Some((format!("{text}{garbage}"), false))
        }
    }
}

fn nested_at(text: &str, pos: usize) -> bool {
    // bracket depth (outside quotes) at pos >= 2 means inside a formula below its root operator
    let mut depth = 0i32;
    for (p, ch) in outside_quotes(text) {
        if p >= pos {
            break;
        }
        match ch {
            '(' => depth += 1,
            ')' => depth -= 1,
            _ => {}
        }
    }
    depth >= 2
}

pub fn parser_verdict(text: &str) -> Result<bool, String> {
    catch(|| {
        let parser = AdfParser::default();
        let r = parser.parse()(text);
        match r {
            Ok((rest, ())) => rest.is_empty(),
            Err(_) => false,
        }
    })
}

fn c08_reject(c: &MutCase, st: &mut Stats) -> CheckResult {
    let text = c.adf.text();
    let (mutant, nested) = match mutate(&text, &c.m) {
        Some(x) => x,
        None => {
            st.label("mutation_not_applicable");
            return Ok(Outcome::Ok);
        }
    };
    if refparse::accepts(&mutant) {
        // not definitely invalid (e.g. garbage that happens to complete a fact): discarded, counted
        st.label("discarded:reference_accepts_mutant");
        return Ok(Outcome::Ok);
    }
    st.label(match &c.m {
        Mutation::DelBracket(_) => "mutant:delete-bracket",
        Mutation::InsBracket(..) => "mutant:insert-bracket",
        Mutation::DelDot(_) => "mutant:delete-terminator",
        Mutation::Arity(..) => "mutant:arity",
        Mutation::Garbage(_) => "mutant:trailing-garbage",
    });
    match parser_verdict(&mutant) {
        Err(p) => return Err(format!("parser panicked on malformed text {mutant:?}: {p}")),
        Ok(true) => return Err(format!("malformed text accepted ({:?}): {mutant:?}", c.m)),
        Ok(false) => {}
    }
    if nested || matches!(c.m, Mutation::DelDot(_) | Mutation::Garbage(_)) {
        st.nontrivial(stable_hash(&mutant), || json!({"mutation": format!("{:?}", c.m), "mutant": mutant.chars().take(400).collect::<String>()}));
    }
    Ok(Outcome::Ok)
}

/// free-form differential: any string over the token alphabet; the parser must not panic, and its
/// verdict must agree with the reference recogniser
fn c08_tokens(toks: &Vec<u8>, st: &mut Stats) -> CheckResult {
    const T: &[&str] = &[
        "s(", "ac(", ")", "(", ".", ",", "a", "b", "c", "c(v)", "c(f)", "neg(", "and(", "or(", "imp(", "iff(", "xor(", "\"", " ",
        "\n", "ab", "1", "s(a).", "ac(a,b).", "s(b).", "neg", "and", "v", "f", "\"q r\"",
    ];
    let text: String = toks.iter().map(|t| T[(*t as usize) % T.len()]).collect();
    let reference = refparse::accepts(&text);
    let lib = parser_verdict(&text).map_err(|p| format!("parser panicked on {text:?}: {p}"))?;
    if lib && !reference {
        return Err(format!("text outside the documented format accepted: {text:?}"));
    }
    if !lib && reference {
        return Err(format!("text of the documented format rejected: {text:?}"));
    }
    st.label(if lib { "token-soup:accepted" } else { "token-soup:rejected" });
    if lib && text.len() > 12 {
        st.nontrivial(stable_hash(&text), || json!({"token_text": text}));
    }
    Ok(Outcome::Ok)
}

fn parser_adf(nmax: usize, depth: u32) -> BoxedStrategy<Vec<F>> {
    (1..=nmax)
        .prop_flat_map(move |n| {
            proptest::collection::vec(
                prop_oneof![
                    3 => gen::formula_sized(n.min(10), depth, 40),
                    2 => gen::table_function(n, 4),
                    1 => gen::formula(n.min(10), 3),
                ],
                n,
            )
        })
        .boxed()
}

/// Big texts: many statements, deeply nested conditions, long white-space runs, very long labels.
fn big_text_case() -> BoxedStrategy<AdfCase> {
    use crate::formula::F;
    let many = (150usize..500, proptest::collection::vec((0u8..6, any::<u16>(), any::<u16>()), 500), any::<bool>()).prop_map(|(n, spec, shuffled)| {
        let acs: Vec<F> = (0..n)
            .map(|i| {
                let (k, a, b) = spec[i % spec.len()];
                let x = F::Atom((i + 1 + a as usize % 5) % n);
                let y = F::Atom((i + n - 1 - b as usize % 5) % n);
                match k {
                    0 => F::Top,
                    1 => F::not(x),
                    2 => F::and(x, F::not(y)),
                    3 => F::imp(x, y),
                    4 => F::xor(F::Atom(i), y),
                    _ => F::or(x, F::iff(y, F::Atom(i))),
                }
            })
            .collect();
        let labels: Vec<String> = (0..n).map(|i| if i % 7 == 3 { format!("q {i}") } else { format!("g{i}") }).collect();
        let keys: Vec<u16> = if shuffled { (0..2 * n).map(|i| stable_hash(&(i as u64, n as u64)) as u16).collect() } else { (0..2 * n as u16).collect() };
        AdfCase { acs, labels, layout: gen::Layout { keys, ws: vec![0, 3, 1] } }
    });
    let deep = (2usize..5, 100usize..400, proptest::collection::vec((0u8..7, any::<u8>()), 400)).prop_map(|(n, depth, spec)| {
        let mut acs: Vec<F> = (0..n).map(|i| F::Atom((i + 1) % n)).collect();
        let mut f = F::Atom(0);
        for d in 0..depth {
            let (k, a) = spec[d % spec.len()];
            let x = F::Atom(a as usize % n);
            f = match k {
                0 => F::not(f),
                1 => F::and(x, f),
                2 => F::or(f, x),
                3 => F::imp(f, x),
                4 => F::imp(x, f),
                5 => F::iff(x, f),
                _ => F::xor(f, x),
            };
        }
        acs[0] = f;
        AdfCase { acs, labels: (0..n).map(|i| format!("d{i}")).collect(), layout: gen::Layout { keys: (0..2 * n as u16).collect(), ws: vec![0] } }
    });
    let spaced = (gen::adf_case(parser_adf(5, 4), LabelClass::Quoted), proptest::collection::vec(prop_oneof![3 => 0u8..8, 2 => 8u8..10], 3..12)).prop_map(|(mut c, ws)| {
        c.layout.ws = ws;
        c
    });
    let long_labels = (gen::adf_case(parser_adf(4, 4), LabelClass::Alnum), 500usize..3000, any::<bool>()).prop_map(|(mut c, len, quoted)| {
        for (i, l) in c.labels.iter_mut().enumerate() {
            let body: String = (0..len).map(|j| (b'a' + ((i * 7 + j * 3) % 26) as u8) as char).collect();
            *l = if quoted { format!("{body} {i}") } else { format!("{body}{i}") };
        }
        c
    });
    prop_oneof![many, deep, spaced, long_labels].boxed()
}


/// State carried from one parse to the next on the same thread: a number of malformed texts (each possibly many times)
/// are rejected first, then a valid text must still be accepted with the right formulas.
#[derive(Clone, Debug, Serialize, Deserialize)]
pub struct AfterRejects {
    pub bad: Vec<(AdfCase, Mutation, u8)>,
    /// how often every malformed text is parsed: 1, 40, 300, 700
    pub repeat: u8,
    pub good: AdfCase,
}

fn empty_operand(text: &str, which: u8, kind: u8) -> Option<String> {
    // replace the condition of one ac fact (found outside quotes) by a formula with an empty operand
    let out = outside_quotes(text);
    let starts: Vec<usize> = out.windows(3).filter(|w| w[0].1 == 'a' && w[1].1 == 'c' && w[2].1 == '(' && w[1].0 == w[0].0 + 1 && w[2].0 == w[1].0 + 1).map(|w| w[0].0).collect();
    if starts.is_empty() {
        return None;
    }
    let st = starts[which as usize % starts.len()];
    // the fact ends at the next '.' outside quotes
    let end = out.iter().find(|(i, c)| *i > st && *c == '.')?.0;
    let comma = out.iter().find(|(i, c)| *i > st && *c == ',')?.0;
    if comma > end {
        return None;
    }
    let head = &text[..=comma];
    let tail = &text[end..];
    let body = match kind % 5 {
        0 => "neg()",
        1 => "and(c(v),)",
        2 => "",
        3 => "or(,c(f))",
        _ => "neg(neg(neg()))",
    };
    Some(format!("{head}{body}){tail}"))
}

fn c08_after_rejects(c: &AfterRejects, st: &mut Stats) -> CheckResult {
    let reps = [1usize, 40, 300, 700][c.repeat as usize % 4];
    let mut rejected = 0usize;
    for (adf, m, e) in &c.bad {
        let text = adf.text();
        let mutant = if *e < 200 { empty_operand(&text, *e, e / 5) } else { mutate(&text, m).map(|x| x.0) };
        let Some(mutant) = mutant else { continue };
        if refparse::accepts(&mutant) {
            st.label("discarded:reference_accepts_mutant");
            continue;
        }
        for _ in 0..reps {
            match parser_verdict(&mutant) {
                Err(p) => return Err(format!("parser panicked on malformed text {mutant:?}: {p}")),
                Ok(true) => return Err(format!("malformed text accepted: {mutant:?}")),
                Ok(false) => rejected += 1,
            }
        }
    }
    st.label(&format!("rejected_before>={}", [0usize, 1, 100, 500, 1000].iter().rev().find(|&&x| rejected >= x).unwrap()));
    c08_accept(&c.good, st).map_err(|e| format!("after {rejected} rejected malformed texts on the same thread: {e}"))
}

fn after_rejects_case() -> BoxedStrategy<AfterRejects> {
    (
        proptest::collection::vec(
            (
                gen::adf_case(parser_adf(4, 4), LabelClass::Quoted),
                prop_oneof![
                    any::<u16>().prop_map(Mutation::DelBracket),
                    (any::<u16>(), any::<bool>()).prop_map(|(a, b)| Mutation::InsBracket(a, b)),
                    (any::<u16>(), 0u8..6).prop_map(|(a, b)| Mutation::Arity(a, b)),
                ],
                any::<u8>(),
            ),
            0..4,
        ),
        any::<u8>(),
        gen::adf_case(parser_adf(5, 6), LabelClass::Quoted),
    )
        .prop_map(|(bad, repeat, good)| AfterRejects { bad, repeat, good })
        .boxed()
}

pub fn c08(tier: Tier) -> PropSpec {
    PropSpec {
        id: "C08",
        level: "exploration",
        rule: "accept: generated ADFs (1..12 statements, nesting depth <= 12, all connectives) rendered with labels of all classes (plain, \
               numeric, keyword-like, quoted with blanks/punctuation/unicode, quoted with characters biodivine reserves), arbitrary fact \
               interleaving (ac before s) and whitespace after '.' and around ','. Oracle: Ok with empty rest; dictionary = labels \
               verbatim in order of first declaration; ac_at(i) evaluated by an own evaluator on the public Formula enum denotes the \
               written function for ALL assignments of its support and mentions only declared labels; compiled diagrams (native, and via \
               biodivine for labels it accepts) denote the same function. reject: mutants of valid texts - delete/insert one bracket \
               outside quotes, delete a '.', wrong arity of c/neg/binary operators, trailing non-blank garbage - kept only if an \
               independent reference recogniser written from the documented grammar also rejects them; oracle: Err, no panic. \
               tokens: random token soups; parser verdict must equal the reference recogniser's, no panic. accept-after-rejects: up to three malformed texts (bracket / arity mutants, empty operands), each parsed 1..700 times, then a valid text on the same thread with the accept oracle. reject-with-logging: mutants full of multi-byte characters while a logger formats every record. Non-trivial: accepted text \
               with a keyword-like or quoted label and a binary connective; mutant whose edit lies inside a nested formula or removes a \
               terminator / appends garbage.",
        assumptions: vec![
            "refparse.rs (deterministic recogniser written from the documented grammar) defines 'definitely invalid'",
            "the empty quoted label \"\" is not generated (accepted by the parser, documented nowhere)",
        ],
        exhaustive: false,
        parts: vec![
            Part::new(
                "accept",
                tier.pick(30000, 300000),
                || gen::adf_case(parser_adf(12, 12), LabelClass::Hostile),
                c08_accept,
            ),
            // size: 150..500 statements, nesting depth 100..400, white-space runs of hundreds of characters, labels of thousands
            Part::with_shrink("accept-big", tier.pick(2000, 20000), 100, big_text_case, c08_accept),
            Part::new(
                "reject",
                tier.pick(60000, 600000),
                || {
                    (
                        gen::adf_case(parser_adf(6, 6), LabelClass::Hostile),
                        prop_oneof![
                            3 => any::<u16>().prop_map(Mutation::DelBracket),
                            3 => (any::<u16>(), any::<bool>()).prop_map(|(a, b)| Mutation::InsBracket(a, b)),
                            2 => any::<u16>().prop_map(Mutation::DelDot),
                            3 => (any::<u16>(), 0u8..6).prop_map(|(a, b)| Mutation::Arity(a, b)),
                            2 => any::<u8>().prop_map(Mutation::Garbage),
                        ],
                    )
                        .prop_map(|(adf, m)| MutCase { adf, m })
                        .boxed()
                },
                c08_reject,
            ),
            // rejected texts first, then an accepted one, all on one thread (and thousands of cases per thread)
            Part::with_shrink("accept-after-rejects", tier.pick(4000, 40000), 60, after_rejects_case, c08_after_rejects),
            // malformed texts full of multi-byte characters while a logger is active (error reporting code runs)
            Box::new(Logged(Part::new(
                "reject-with-logging",
                tier.pick(6000, 60000),
                || {
                    (
                        gen::adf_case(parser_adf(5, 4), LabelClass::Quoted),
                        prop_oneof![
                            3 => any::<u16>().prop_map(Mutation::DelBracket),
                            3 => (any::<u16>(), any::<bool>()).prop_map(|(a, b)| Mutation::InsBracket(a, b)),
                            2 => any::<u16>().prop_map(Mutation::DelDot),
                            3 => (any::<u16>(), 0u8..6).prop_map(|(a, b)| Mutation::Arity(a, b)),
                            2 => any::<u8>().prop_map(Mutation::Garbage),
                        ],
                        proptest::collection::vec(0u8..6, 8),
                    )
                        .prop_map(|(mut adf, m, marks)| {
                            for (i, l) in adf.labels.iter_mut().enumerate() {
                                match marks[i % marks.len()] {
                                    0 => l.push_str("\u{20ac}\u{65e5}\u{672c}"),
                                    1 => *l = format!("\u{e9}{l}\u{1f600}"),
                                    2 => l.push('\u{fc}'),
                                    3 => *l = "\u{3b1}\u{3b2}\u{3b3}\u{3b4}\u{3b5}\u{3b6}\u{3b7}\u{3b8}".chars().take(2 + i).collect::<String>() + l,
                                    _ => {}
                                }
                            }
                            MutCase { adf, m }
                        })
                        .boxed()
                },
                c08_reject,
            ))),
            Part::new(
                "tokens",
                tier.pick(300000, 3000000),
                || proptest::collection::vec(any::<u8>(), 1..14).boxed(),
                c08_tokens,
            ),
            // the CLI on valid files (all label spellings incl. blanks, layouts): the grounded line must be right
            crate::props::cli::sem_cli_part("cli-accept", &[crate::props::cli::Flag::Grd, crate::props::cli::Flag::Com], tier.pick(150, 1500)),
            crate::props::cli::deep_cli_part("cli-accept-deep", tier.pick(48, 480)),
            // the CLI clause: no answer for malformed text in any library mode
            Part::with_shrink(
                "cli-reject",
                tier.pick(150, 1500),
                300,
                || {
                    (
                        crate::props::cli::cli_adf(1, 4, 1),
                        prop_oneof![
                            any::<u16>().prop_map(Mutation::DelBracket),
                            (any::<u16>(), any::<bool>()).prop_map(|(a, b)| Mutation::InsBracket(a, b)),
                            any::<u16>().prop_map(Mutation::DelDot),
                            (any::<u16>(), 0u8..6).prop_map(|(a, b)| Mutation::Arity(a, b)),
                            any::<u8>().prop_map(Mutation::Garbage),
                        ],
                    )
                        .prop_map(|(adf, m)| MutCase { adf, m })
                        .boxed()
                },
                crate::props::cli::cli_reject_check,
            ),
        ],
    }
}
