//! C06 / C07: diagram store canonicity and functional correctness over generated op sequences.

use crate::bddmodel::*;
use crate::engine::*;
use crate::props::sem::{build_native_like, sem_case, Backend, SemCase};
use crate::sut;
use adf_bdd::datatypes::Term;
use proptest::prelude::*;
use serde_json::json;
use std::collections::HashMap;

#[derive(Clone, Copy, PartialEq, Eq)]
pub enum Focus {
    Canonical,
    Function,
}

pub fn run_program(p: &Program, focus: Focus, st: &mut Stats) -> CheckResult {
    let mut sh = Shadow::new(p.k as usize).with_spread(p.spread);
    let mut hits = 0usize;
    let mut created = 0usize;
    let mut overlapping = 0usize;
    let mut deep = 0usize;
    let mut remat = 0usize;
    for (i, op) in p.ops.iter().enumerate() {
        let info = sh.step(op).map_err(|e| format!("step {i}: {e}"))?;
        if focus == Focus::Canonical {
            sh.invariants().map_err(|e| format!("after step {i} ({op:?}): {e}"))?;
        }
        hits += info.canonicity_hit as usize;
        created += info.created_nodes;
        overlapping += info.overlapping_binary as usize;
        deep += info.deep_restrict as usize;
        remat += info.rematerialised as usize;
    }
    if focus == Focus::Function {
        // cold replay: every issued handle's defining function is re-checked on the final store
        for (h, t, _) in &sh.issued {
            if &sh.walked(*h)? != t {
                return Err(format!("final re-walk: handle {} changed its function", h.value()));
            }
        }
    } else {
        sh.invariants()?;
        // the textual rendering of the store lists exactly the node table
        let shown = format!("{}", sh.bdd);
        let lines: Vec<&str> = shown.lines().filter(|l| !l.trim().is_empty()).collect();
        if lines.len() != sh.bdd.nodes.len() {
            return Err(format!("Display for Bdd prints {} node lines for {} nodes", lines.len(), sh.bdd.nodes.len()));
        }
        for (i, (l, n)) in lines.iter().zip(sh.bdd.nodes.iter()).enumerate() {
            let want = format!("{i} BddNode: Var({}), lo: Term({}), hi: Term({})", n.var().value(), n.lo().value(), n.hi().value());
            if l.trim() != want {
                return Err(format!("Display for Bdd prints {l:?} for node {i}, the table holds {want:?}"));
            }
        }
        // valid / unsatisfiable collapse to the constants
        for (h, t, _) in &sh.issued {
            let ones = t_count(t);
            if (ones == 0) != (*h == Term::BOT) || (ones == rows(sh.k) as u64) != (*h == Term::TOP) {
                return Err(format!(
                    "handle {} denotes a constant function iff it is the constant handle: violated",
                    h.value()
                ));
            }
        }
    }
    if remat > 0 {
        st.label("with_rematerialisation");
    }
    st.count("canonicity_hits", hits as u64);
    st.count("nodes_created", created as u64);
    let nt = match focus {
        Focus::Canonical => created >= 5 && hits >= 1,
        Focus::Function => overlapping >= 1 || deep >= 1,
    };
    if overlapping > 0 {
        st.label("binary_op_overlapping_support");
    }
    if deep > 0 {
        st.label("restrict_below_root");
    }
    if nt {
        st.nontrivial(stable_hash(p), || {
            json!({"k": p.k, "ops": p.ops.iter().map(|o| format!("{o:?}")).collect::<Vec<_>>(),
                   "nodes": sh.bdd.nodes.len(), "canonicity_hits": hits})
        });
    }
    Ok(Outcome::Ok)
}

/// bridge conversions of generated ADFs: structural invariants + handle equality iff function
/// equality across all acceptance conditions
fn c06_bridge(c: &SemCase, st: &mut Stats) -> CheckResult {
    let text = c.adf.text();
    let n = c.adf.n();
    let res = sut::with_parser(&text, c.sort, |p| -> Result<usize, String> {
        let mut shared = 0usize;
        for b in [Backend::Native, Backend::HybridPre, Backend::HybridNoPre, Backend::FromBio] {
            let mut a = build_native_like(p, b);
            if b != Backend::HybridPre {
                // the statements' formulas themselves: same handle iff same Boolean function,
                // constant handle iff valid / unsatisfiable
                let names: Vec<String> = p.var_container().names().read().unwrap().clone();
                let perm = sut::perm_from_names(&names, &c.adf.labels)?;
                let tts: Vec<u128> = (0..n).map(|li| c.adf.acs[perm[li]].tt(n)).collect();
                let full = if n == 7 { u128::MAX } else { (1u128 << (1u32 << n)) - 1 };
                for i in 0..n {
                    if (a.ac[i] == Term::TOP) != (tts[i] == full) || (a.ac[i] == Term::BOT) != (tts[i] == 0) {
                        return Err(format!(
                            "{b:?}: statement #{i} has handle {} but its condition is {}",
                            a.ac[i].value(),
                            if tts[i] == full { "valid" } else if tts[i] == 0 { "unsatisfiable" } else { "neither valid nor unsatisfiable" }
                        ));
                    }
                    for j in 0..i {
                        if (a.ac[i] == a.ac[j]) != (tts[i] == tts[j]) {
                            return Err(format!(
                                "{b:?}: statements #{j} and #{i} have {} handles ({}, {}) but their conditions denote {} Boolean functions",
                                if a.ac[i] == a.ac[j] { "equal" } else { "different" },
                                a.ac[j].value(),
                                a.ac[i].value(),
                                if tts[i] == tts[j] { "the same" } else { "different" }
                            ));
                        }
                    }
                }
            }
            // grow the table a little through the semantics
            let _ = a.grounded();
            let _: Vec<_> = a.stable().collect();
            structural_invariants(&a.bdd.nodes, Some(n)).map_err(|e| format!("{b:?}: {e}"))?;
            let mut by_table: HashMap<Vec<u64>, Term> = HashMap::new();
            // every node of the table is a handle: equal function iff equal handle
            for i in 0..a.bdd.nodes.len() {
                let t = sut::table_of(&a.bdd, Term(i), n)?;
                if let Some(prev) = by_table.insert(t, Term(i)) {
                    return Err(format!(
                        "{b:?}: handles {} and {} denote the same Boolean function",
                        prev.value(),
                        i
                    ));
                }
            }
            let mut seen: HashMap<Term, usize> = HashMap::new();
            for t in &a.ac {
                *seen.entry(*t).or_insert(0) += 1;
            }
            shared += seen.values().filter(|&&c| c > 1).count();
        }
        Ok(shared)
    });
    let shared = match res {
        Err(e) => return Err(format!("well-formed input rejected: {e}")),
        Ok(Err(e)) => return Err(e),
        Ok(Ok(s)) => s,
    };
    if shared > 0 || n >= 4 {
        st.nontrivial(crate::props::sem::case_hash(c), || json!({"text": text}));
    }
    Ok(Outcome::Ok)
}

/// One very large store (size thresholds, cache limits): (x0 & y0) | ... | (x_{p-1} & y_{p-1}) with all x
/// before all y has about 2^(p+1) nodes; building the same function a second time must create nothing.
fn c06_huge(pairs: &usize, st: &mut Stats) -> CheckResult {
    use adf_bdd::datatypes::Var;
    use adf_bdd::obdd::Bdd;
    let p = *pairs;
    let mut bdd = Bdd::new();
    let build = |bdd: &mut Bdd| -> Term {
        let mut acc = Term::BOT;
        for i in 0..p {
            let x = bdd.variable(Var(i));
            let y = bdd.variable(Var(p + i));
            let c = bdd.and(x, y);
            acc = bdd.or(acc, c);
        }
        acc
    };
    let f1 = build(&mut bdd);
    let n1 = bdd.nodes.len();
    let vars1: Vec<Term> = (0..2 * p).map(|v| bdd.variable(Var(v))).collect();
    let f2 = build(&mut bdd);
    let n2 = bdd.nodes.len();
    let vars2: Vec<Term> = (0..2 * p).map(|v| bdd.variable(Var(v))).collect();
    if f1 != f2 {
        return Err(format!("store with {n1} nodes: the same function built twice has handles {} and {}", f1.value(), f2.value()));
    }
    if n2 != n1 {
        return Err(format!("store with {n1} nodes: building the same function again created {} new nodes", n2 - n1));
    }
    if vars1 != vars2 {
        return Err("store with many nodes: variable handles changed".into());
    }
    // the same function via other intermediate results (pairs in reverse order, operands swapped): many new
    // cache entries and nodes, the same final handle
    let f3 = {
        let mut acc = Term::BOT;
        for i in (0..p).rev() {
            let x = bdd.variable(Var(i));
            let y = bdd.variable(Var(p + i));
            let c = bdd.and(y, x);
            acc = bdd.or(c, acc);
        }
        acc
    };
    if f3 != f1 {
        return Err(format!(
            "store with {} nodes: the same function built in another order has handles {} and {}",
            bdd.nodes.len(),
            f1.value(),
            f3.value()
        ));
    }
    let vars3: Vec<Term> = (0..2 * p).map(|v| bdd.variable(Var(v))).collect();
    if vars1 != vars3 {
        return Err("store with many nodes: variable handles changed after more operations".into());
    }
    let nf = bdd.not(f1);
    if bdd.or(nf, f3) != Term::TOP || bdd.and(nf, f3) != Term::BOT {
        return Err("store with many nodes: f | !f is not TOP (or f & !f not BOT)".into());
    }
    structural_invariants(&bdd.nodes, Some(2 * p))?;
    // spot-check the function on some assignments
    for seed in 0..200u64 {
        let a = stable_hash(&(seed, p as u64));
        let want = (0..p).any(|i| (a >> i) & 1 == 1 && (a >> (p + i)) & 1 == 1);
        if sut::walk(&bdd, f1, &|v| (a >> v) & 1 == 1)? != want {
            return Err("large store: the diagram does not denote the function built".into());
        }
    }
    st.count("huge_store_nodes", n1 as u64);
    st.nontrivial(stable_hash(&p), || json!({"pairs": p, "nodes": n1}));
    Ok(Outcome::Ok)
}

pub fn c06(tier: Tier) -> PropSpec {
    let (k, ops) = tier.pick((6u8, 60usize), (9u8, 200usize));
    PropSpec {
        id: "C06",
        level: "exploration",
        rule: "generated operation sequences (variable, constant, not, and, or, imp, iff, xor, restrict, order-respecting node, \
               serde round trip + fix_import, Bdd::from(nodes)) over k<=6 (thorough 9) variables with operands drawn from all issued \
               handles; after EVERY step: reduced, ordered, duplicate-free over the whole public node table, and handle equality \
               iff truth-table equality over all issued handles (tables computed by a shadow model, stored functions read by walking \
               nodes). Second part: bridge conversions of generated ADFs. Non-trivial: >= 5 nodes created and >= 1 canonicity hit \
               (an op returning an already existing handle first produced by a different op).",
        assumptions: vec![
            "bddmodel.rs truth-table algebra and sut::walk are correct",
            "node() is only called order-respecting (variable above both children), the precondition every in-tree caller respects",
        ],
        exhaustive: false,
        parts: vec![
            Part::new(
                "ops",
                tier.pick(60000, 400000),
                move || program(k, ops, true),
                |p: &Program, st| run_program(p, Focus::Canonical, st),
            ),
            // the same sequences and invariants under every cargo feature set (probe binaries of C12)
            Part::with_shrink(
                "feature-lanes",
                tier.pick(300, 3000),
                200,
                crate::props::features::probe_ops_case,
                crate::props::features::c12_check_entry,
            ),
            EnumPart::new(
                "huge-store",
                move || Box::new(tier.pick(vec![10usize, 17], vec![12usize, 15, 18, 19]).into_iter()),
                c06_huge,
            ),
            Part::new(
                "adf-bridge",
                tier.pick(6000, 60000),
                || sem_case(1, 6),
                c06_bridge,
            ),
        ],
    }
}

pub fn c07(tier: Tier) -> PropSpec {
    let (k, ops) = tier.pick((6u8, 60usize), (9u8, 200usize));
    PropSpec {
        id: "C07",
        level: "exploration",
        rule: "same generated operation sequences as C06; after EVERY op the result handle is walked under all 2^k assignments and \
               compared with the truth table the operation names (restrict = cofactor, incl. a variable that never occurs); \
               previously issued handles must keep their function (implied by an unchanged node-table prefix, else all are \
               re-walked; always re-walked after a re-materialisation and at the end). Memo tables are warm by construction. \
               Non-trivial: a binary op on two non-constant operands with overlapping support, or a restrict of a support \
               variable below the root.",
        assumptions: vec!["bddmodel.rs truth-table algebra and sut::walk are correct"],
        exhaustive: false,
        parts: vec![
            Part::new(
                "ops",
                tier.pick(60000, 400000),
                move || program(k, ops, true),
                |p: &Program, st| run_program(p, Focus::Function, st),
            ),
            // the same sequences under every cargo feature set (several code paths of restrict and of the
            // dependency bookkeeping only exist without a feature)
            Part::with_shrink(
                "feature-lanes",
                tier.pick(400, 4000),
                200,
                crate::props::features::probe_ops_case,
                crate::props::features::c12_check_entry,
            ),
            // imports of states with an incomplete unique table (stripped / written by another tool): sharing may be
            // lost, every operation must still compute the function it names
            Part::new(
                "partial-import",
                tier.pick(20000, 200000),
                move || program_partial_import(k.min(6), 40),
                |p: &Program, st| {
                    if p.ops.iter().any(|o| matches!(o, Op::SerdePartialCache(_))) {
                        st.label("with_partial_import");
                    }
                    run_program(p, Focus::Function, st)
                },
            ),
            // many short programs on few variables: dense in cache collisions
            Part::new(
                "ops-dense",
                tier.pick(60000, 600000),
                || program(3, 40, false),
                |p: &Program, st| run_program(p, Focus::Function, st),
            ),
        ],
    }
}

