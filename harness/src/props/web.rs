//! C16: the web service returns the library's answers through its storage round trip.

use crate::engine::*;
use crate::formula::F;
use crate::gen::{self, AdfCase, LabelClass};
use crate::known::known_or_fail;
use crate::oracle::{self, Interp, Oracle, Tv};
use crate::props::parser::{mutate, Mutation};
use crate::refparse;
use crate::srvkit::http::{Client, Jar};
use crate::srvkit::Server;
use proptest::prelude::*;
use serde::{Deserialize, Serialize};
use serde_json::{json, Value};
use std::collections::{BTreeMap, BTreeSet};
use std::sync::OnceLock;
use std::time::{Duration, Instant};

static SERVER: OnceLock<Result<Server, String>> = OnceLock::new();

pub fn server() -> Result<&'static Server, String> {
    match SERVER.get_or_init(Server::start) {
        Ok(s) => Ok(s),
        Err(e) => Err(format!("INCONCLUSIVE: cannot start the server harness: {e}")),
    }
}

#[derive(Clone, Copy, Debug, Serialize, Deserialize, PartialEq, Eq, Hash, PartialOrd, Ord)]
pub enum Strat {
    Ground,
    Complete,
    Stable,
    StableCountingA,
    StableCountingB,
    StableNogood,
}
pub const STRATEGIES: [Strat; 6] = [
    Strat::Ground,
    Strat::Complete,
    Strat::Stable,
    Strat::StableCountingA,
    Strat::StableCountingB,
    Strat::StableNogood,
];
impl Strat {
    pub fn name(self) -> &'static str {
        match self {
            Strat::Ground => "Ground",
            Strat::Complete => "Complete",
            Strat::Stable => "Stable",
            Strat::StableCountingA => "StableCountingA",
            Strat::StableCountingB => "StableCountingB",
            Strat::StableNogood => "StableNogood",
        }
    }
    pub fn slot(self) -> &'static str {
        match self {
            Strat::Ground => "ground",
            Strat::Complete => "complete",
            Strat::Stable => "stable",
            Strat::StableCountingA => "stable_counting_a",
            Strat::StableCountingB => "stable_counting_b",
            Strat::StableNogood => "stable_nogood",
        }
    }
}

#[derive(Clone, Debug, Serialize, Deserialize, PartialEq, Eq, Hash)]
pub enum CodeKind {
    WellFormed,
    /// grammar-invalid mutant of the ADF text
    Malformed(Mutation),
    /// grammar-valid, but one statement is used without being declared
    Undeclared(u16),
}

#[derive(Clone, Debug, Serialize, Deserialize, PartialEq, Eq, Hash)]
pub enum Req {
    Solve(Strat),
    Get,
    /// several solve requests sent back to back without waiting for any result (tasks overlap)
    Burst(Vec<Strat>),
}

#[derive(Clone, Debug, Serialize, Deserialize)]
pub struct WebCase {
    pub adf: AdfCase,
    pub kind: CodeKind,
    pub hybrid: bool,
    pub reqs: Vec<Req>,
    /// afterwards the problem is deleted and another code is added under the SAME name by the same
    /// user: nothing of the deleted problem may survive
    #[serde(default)]
    pub readd: Option<Box<WebCase>>,
    /// a task of this strategy may be listed as running although this problem never asked for it (it belongs to a
    /// problem of the same name that was deleted while the task was running; only set by the stale-writer part)
    #[serde(default)]
    pub foreign_task: Option<Strat>,
}

// longer than the service's own time limit for a task (120 s): a task that never finishes ends up as a stored
// "deadline has elapsed" error, which for these small problems is a wrong answer, not a slow one
const POLL_LIMIT: Duration = Duration::from_secs(150);

/// poll GET /adf/{name} until `slot` is filled. A slot that stays empty for 8 s although its task
/// is not (no longer) listed as running is a lost result (violation); a slot still empty after
/// the overall bound while the task is listed as running is INCONCLUSIVE.
pub fn poll_slot(c: &Client, jar: &mut Jar, name: &str, slot: &str, task: &Value) -> Result<Value, String> {
    let t0 = Instant::now();
    let mut sleep = 2u64;
    let mut idle_since: Option<Instant> = None;
    loop {
        let r = c.get(jar, &format!("/adf/{}", crate::srvkit::http::urlencode_path(name)))?;
        if r.status != 200 {
            return Err(format!("GET /adf/{name}: status {} {}", r.status, r.text()));
        }
        let v = r.json()?;
        let ty = v["acs_per_strategy"][slot]["type"].as_str().unwrap_or("?").to_string();
        if ty != "None" {
            return Ok(v);
        }
        let running = v["running_tasks"].as_array().map(|a| a.contains(task)).unwrap_or(false);
        if running {
            idle_since = None;
        } else {
            let since = *idle_since.get_or_insert_with(Instant::now);
            if since.elapsed() > Duration::from_secs(8) {
                return Err(format!(
                    "slot {slot} is still empty although its task has not been running for 8 s: the result was lost / never stored"
                ));
            }
        }
        if t0.elapsed() > POLL_LIMIT {
            return Err(format!("INCONCLUSIVE: slot {slot} still empty after {POLL_LIMIT:?}, task still listed as running"));
        }
        std::thread::sleep(Duration::from_millis(sleep));
        sleep = (sleep * 2).min(50);
    }
}

struct Graph {
    labels: BTreeMap<String, String>,
    roots: BTreeMap<String, Vec<String>>,
    lo: BTreeMap<String, String>,
    hi: BTreeMap<String, String>,
}

fn parse_graph(g: &Value) -> Result<Graph, String> {
    let obj = |v: &Value, what: &str| -> Result<serde_json::Map<String, Value>, String> {
        v.as_object().cloned().ok_or_else(|| format!("graph.{what} is not an object"))
    };
    let labels: BTreeMap<String, String> = obj(&g["node_labels"], "node_labels")?
        .into_iter()
        .map(|(k, v)| (k, v.as_str().unwrap_or("?").to_string()))
        .collect();
    let roots: BTreeMap<String, Vec<String>> = obj(&g["tree_root_labels"], "tree_root_labels")?
        .into_iter()
        .map(|(k, v)| (k, v.as_array().map(|a| a.iter().map(|x| x.as_str().unwrap_or("?").to_string()).collect()).unwrap_or_default()))
        .collect();
    let edges = |v: &Value, what: &str| -> Result<BTreeMap<String, String>, String> {
        let mut m = BTreeMap::new();
        for e in v.as_array().ok_or_else(|| format!("graph.{what} is not an array"))? {
            let from = e[0].as_str().ok_or("edge endpoint")?.to_string();
            let to = e[1].as_str().ok_or("edge endpoint")?.to_string();
            if m.insert(from.clone(), to).is_some() {
                return Err(format!("node {from} has two {what}"));
            }
        }
        Ok(m)
    };
    Ok(Graph {
        labels,
        roots,
        lo: edges(&g["lo_edges"], "lo_edges")?,
        hi: edges(&g["hi_edges"], "hi_edges")?,
    })
}

/// check one AcAndGraph entry; returns the shown interpretation in logical order
fn check_entry(
    entry: &Value,
    acs: &[F],
    labels: &[String],
    decl: &[usize],
    what: &str,
) -> Result<Interp, String> {
    let n = acs.len();
    let g = parse_graph(&entry["graph"]).map_err(|e| format!("{what}: {e}"))?;
    let ac: Vec<String> = entry["ac"]
        .as_array()
        .ok_or_else(|| format!("{what}: ac is not an array"))?
        .iter()
        .map(|x| x.as_str().unwrap_or("?").to_string())
        .collect();
    if ac.len() != n {
        return Err(format!("{what}: {} root handles for {n} statements", ac.len()));
    }
    if g.roots.keys().collect::<Vec<_>>() != g.labels.keys().collect::<Vec<_>>() {
        return Err(format!("{what}: tree_root_labels and node_labels are keyed by different node sets"));
    }
    // roots by statement name
    let mut root_of: Vec<Option<String>> = vec![None; n];
    for (node, names) in &g.roots {
        for nm in names {
            let s = labels.iter().position(|l| l == nm).ok_or_else(|| format!("{what}: root label {nm:?} is no statement"))?;
            if root_of[s].is_some() {
                return Err(format!("{what}: statement {nm:?} is root label of two nodes"));
            }
            root_of[s] = Some(node.clone());
        }
    }
    for (pos, &s) in decl.iter().enumerate() {
        match &root_of[s] {
            None => return Err(format!("{what}: no node is labelled as root for statement {:?}", labels[s])),
            Some(r) => {
                if *r != ac[pos] {
                    return Err(format!(
                        "{what}: node labelled root for {:?} is {r} but the model lists handle {}",
                        labels[s], ac[pos]
                    ));
                }
            }
        }
    }
    // structure: leaves have no edges, inner nodes exactly one lo and one hi edge, closure
    let mut reach: BTreeSet<String> = BTreeSet::new();
    let mut stack: Vec<String> = root_of.iter().flatten().cloned().collect();
    while let Some(x) = stack.pop() {
        if !reach.insert(x.clone()) {
            continue;
        }
        let lab = g.labels.get(&x).ok_or_else(|| format!("{what}: node {x} is reachable from a root but not part of the graph"))?;
        // the constants are the handles 0 and 1 (a statement may itself be called TOP or BOT: its decision nodes have edges)
        let leaf = x == "0" || x == "1";
        if leaf && lab != if x == "1" { "TOP" } else { "BOT" } {
            return Err(format!("{what}: the constant node {x} is labelled {lab:?}"));
        }
        if !leaf && !labels.iter().any(|l| l == lab) {
            return Err(format!("{what}: node {x} is labelled {lab:?}, which is no statement"));
        }
        match (g.lo.get(&x), g.hi.get(&x)) {
            (None, None) if leaf => {}
            (Some(l), Some(h)) if !leaf => {
                stack.push(l.clone());
                stack.push(h.clone());
            }
            _ => {
                return Err(format!(
                    "{what}: node {x} ({lab}) must have {} but has lo={:?} hi={:?}",
                    if leaf { "no edges" } else { "exactly one lo and one hi edge" },
                    g.lo.get(&x),
                    g.hi.get(&x)
                ))
            }
        }
    }
    let all: BTreeSet<String> = g.labels.keys().cloned().collect();
    if all != reach {
        return Err(format!(
            "{what}: the graph contains nodes {:?} that are not reachable from the roots",
            all.difference(&reach).collect::<Vec<_>>()
        ));
    }
    for k in g.lo.keys().chain(g.hi.keys()) {
        if !all.contains(k) {
            return Err(format!("{what}: edge from unknown node {k}"));
        }
    }
    // shown interpretation
    let shown: Interp = (0..n)
        .map(|s| match root_of[s].as_ref().unwrap().as_str() {
            "1" => Tv::T,
            "0" => Tv::F,
            _ => Tv::U,
        })
        .collect();
    // faithful picture: every total assignment consistent with the shown model
    for a in 0..(1u64 << n) {
        if (0..n).any(|s| match shown[s] {
            Tv::T => (a >> s) & 1 == 0,
            Tv::F => (a >> s) & 1 == 1,
            Tv::U => false,
        }) {
            continue;
        }
        for s in 0..n {
            let mut cur = root_of[s].clone().unwrap();
            let mut steps = 0;
            let val = loop {
                let lab = &g.labels[&cur];
                if cur == "1" {
                    break true;
                }
                if cur == "0" {
                    break false;
                }
                let v = labels.iter().position(|l| l == lab).ok_or_else(|| format!("{what}: node label {lab:?} is no statement"))?;
                cur = if (a >> v) & 1 == 1 { g.hi[&cur].clone() } else { g.lo[&cur].clone() };
                steps += 1;
                if steps > g.labels.len() + 1 {
                    return Err(format!("{what}: cycle in the graph"));
                }
            };
            if val != acs[s].eval_bits(a) {
                return Err(format!(
                    "{what}: following the edges from the root for {:?} under assignment {a:#b} gives {val}, its acceptance condition gives {}",
                    labels[s],
                    !val
                ));
            }
        }
    }
    Ok(shown)
}

/// constant value of a formula, if it denotes a constant function (evaluated over its own support)
fn const_value(f: &F) -> Option<bool> {
    let sup: Vec<usize> = f.support().into_iter().collect();
    if sup.len() > 16 {
        return None;
    }
    let mut seen = [false, false];
    for bits in 0..(1u64 << sup.len()) {
        let v = f.eval(&|i| sup.iter().position(|&s| s == i).map(|j| (bits >> j) & 1 == 1).unwrap_or(false));
        seen[v as usize] = true;
    }
    match seen {
        [false, true] => Some(true),
        [true, false] => Some(false),
        _ => None,
    }
}

/// wide ADFs (more than 7 statements) are beyond the truth-table oracle: here the property's own
/// wording applies - the service must return *the library's* answers, computed in the harness
fn expected_lib(c: &WebCase, s: Strat) -> Result<Vec<Interp>, String> {
    use crate::calls::{self, Abs, Call};
    let text = c.adf.text();
    let call = match s {
        Strat::Ground => Call::Grounded,
        Strat::Complete => Call::Complete,
        Strat::Stable => Call::Stable,
        Strat::StableCountingA => Call::CountA,
        Strat::StableCountingB => Call::CountB,
        Strat::StableNogood => Call::StableNg(0),
    };
    crate::sut::with_parser(&text, crate::sut::Sort::None, |p| -> Result<Vec<Interp>, String> {
        let names: Vec<String> = p.var_container().names().read().unwrap().clone();
        let perm = crate::sut::perm_from_names(&names, &c.adf.labels)?;
        let mut a = adf_bdd::adf::Adf::from_parser(p);
        match calls::abstract_raw(&calls::exec(&mut a, &call)?, false) {
            Abs::Interps(v) => {
                let mut l: Vec<Interp> = v.iter().map(|i| crate::sut::to_logical(&perm, i)).collect::<Result<_, _>>()?;
                l.sort();
                Ok(l)
            }
            _ => Err("internal".into()),
        }
    })?
}

fn expected(acs: &[F], s: Strat) -> Vec<Interp> {
    let o = Oracle::new(acs);
    let mut e = match s {
        Strat::Ground => vec![o.grounded().0],
        Strat::Complete => o.complete(),
        _ => oracle::stable(acs),
    };
    e.sort();
    e
}

fn check_slot(v: &Value, slot: &str, strategy: Option<Strat>, c: &WebCase, decl: &[usize]) -> Result<usize, String> {
    let s = &v["acs_per_strategy"][slot];
    match s["type"].as_str() {
        Some("Some") => {}
        Some("Error") => return Err(format!("slot {slot} holds an error for well-formed code: {}", s["content"])),
        other => return Err(format!("slot {slot} has type {other:?}")),
    }
    let entries = s["content"].as_array().ok_or("content is not an array")?;
    let mut got: Vec<Interp> = Vec::new();
    for (i, e) in entries.iter().enumerate() {
        got.push(check_entry(e, &c.adf.acs, &c.adf.labels, decl, &format!("{slot}[{i}]"))?);
    }
    match strategy {
        None => {
            if got.len() != 1 || got[0].iter().enumerate().any(|(s, t)| {
                // parse_only shows the unrestricted diagrams: constant iff the function is constant
                let cv = const_value(&c.adf.acs[s]);
                (*t == Tv::T) != (cv == Some(true)) || (*t == Tv::F) != (cv == Some(false))
            }) {
                return Err(format!("parse_only must hold exactly one entry with the unrestricted diagrams; got {}", oracle::show_set(&got)));
            }
        }
        Some(st) => {
            got.sort();
            let exp = if c.adf.n() <= 7 { expected(&c.adf.acs, st) } else { expected_lib(c, st)? };
            if got != exp {
                return Err(format!(
                    "strategy {}: the service returns {} but the definition gives {}",
                    st.name(),
                    oracle::show_set(&got),
                    oracle::show_set(&exp)
                ));
            }
        }
    }
    Ok(entries.len())
}

fn c16_check(c: &WebCase, st: &mut Stats) -> CheckResult {
    let srv = server()?;
    let cl = srv.client();
    let mut jar = Jar::default();
    let first = run_problem(&cl, &mut jar, c, st)?;
    if let Some(second) = &c.readd {
        if jar.cookies.is_empty() {
            return Ok(first);
        }
        // let every task of the first problem finish (a strategy accepted twice in a burst may still run)
        let t0 = Instant::now();
        loop {
            let g = cl.get(&mut jar, "/adf/p")?;
            if g.status != 200 || g.json()?["running_tasks"].as_array().map(|a| a.is_empty()).unwrap_or(true) {
                break;
            }
            if t0.elapsed() > POLL_LIMIT {
                return Err("INCONCLUSIVE: tasks of the first problem still running".into());
            }
            std::thread::sleep(Duration::from_millis(10));
        }
        std::thread::sleep(Duration::from_millis(30));
        let r = cl.delete(&mut jar, "/adf/p")?;
        if r.status != 200 {
            return Err(format!("DELETE /adf/p answered {} {}", r.status, r.text()));
        }
        let g = cl.get(&mut jar, "/adf/p")?;
        if g.status != 404 {
            return Err(format!("the deleted problem is still served (status {})", g.status));
        }
        st.label("deleted_and_added_again_under_the_same_name");
        let o2 = run_problem(&cl, &mut jar, second, st).map_err(|e| format!("after deleting the problem and adding another code under the same name: {e}"))?;
        if o2 != Outcome::Ok {
            return Ok(o2);
        }
    }
    Ok(first)
}

fn run_problem(cl: &Client, jar_ref: &mut Jar, c: &WebCase, st: &mut Stats) -> CheckResult {
    let cl = Client { port: cl.port };
    let mut jar = std::mem::take(jar_ref);
    let res = run_problem_inner(&cl, &mut jar, c, st);
    *jar_ref = jar;
    res
}

fn run_problem_inner(cl: &Client, jar: &mut Jar, c: &WebCase, st: &mut Stats) -> CheckResult {
    let cl = Client { port: cl.port };
    let mut jar_local = std::mem::take(jar);
    let r = run_problem_body(&cl, &mut jar_local, c, st);
    *jar = jar_local;
    r
}

fn run_problem_body(cl_in: &Client, jar_in: &mut Jar, c: &WebCase, st: &mut Stats) -> CheckResult {
    let cl = Client { port: cl_in.port };
    let mut jar = std::mem::take(jar_in);
    let result = (|| -> CheckResult {
    let (text, decl) = gen::render(&c.adf.acs, &c.adf.labels, &c.adf.layout);
    let hostile = c.adf.labels.iter().any(|l| gen::is_bd_hostile(l));
    let code = match &c.kind {
        CodeKind::WellFormed => text.clone(),
        CodeKind::Malformed(m) => match mutate(&text, m) {
            Some((mutant, _)) if !refparse::accepts(&mutant) => mutant,
            _ => {
                st.label("discarded:mutant_not_invalid");
                return Ok(Outcome::Ok);
            }
        },
        CodeKind::Undeclared(i) => {
            // drop one s(..) fact whose statement is still used somewhere
            let victim = decl[gen::pick(*i, decl.len())];
            let fact = format!("s({}).", gen::quote(&c.adf.labels[victim]));
            match text.find(&fact) {
                Some(p) => format!("{}{}", &text[..p], &text[p + fact.len()..]),
                None => return Ok(Outcome::Ok),
            }
        }
    };
    if code.is_empty() {
        return Ok(Outcome::Ok);
    }
    let parsing = if c.hybrid { "Hybrid" } else { "Naive" };
    // a fifth of the problems are uploaded as a file part instead of the code field
    let as_file = stable_hash(&code) % 5 == 0;
    let r = cl.multipart(&mut jar, "/adf/add", &[("name", "p"), (if as_file { "@file" } else { "code" }, &code), ("parsing", parsing)])?;
    if as_file {
        st.label("uploaded_as_file");
    }
    if r.status != 200 {
        return Err(format!("POST /adf/add: status {} {}", r.status, r.text()));
    }
    if jar.cookies.is_empty() {
        return Err("anonymous add did not log in a temporary user".into());
    }
    let parse_task = json!({"type": "Parse"});
    let v = match poll_slot(&cl, &mut jar, "p", "parse_only", &parse_task) {
        Ok(v) => v,
        Err(e) if code.contains('\0') && e.contains("the result was lost / never stored") => {
            // K8 probe: exactly the known signature (the parse task ended, nothing was stored) or correct behaviour
            st.label("nul-in-label");
            return known_or_fail("K8-nul-in-label-result-never-stored", format!("well-formed code {code:?} (a statement name contains a NUL character): {e}"));
        }
        Err(e) => return Err(e),
    };
    if code.contains('\0') {
        st.label("nul-in-label");
    }
    let running_parse = |v: &Value| v["running_tasks"].as_array().map(|a| a.contains(&parse_task)).unwrap_or(false);
    let slot_type = v["acs_per_strategy"]["parse_only"]["type"].as_str().unwrap_or("?").to_string();
    let mut outcome = Outcome::Ok;
    if v["code"] != json!(code) {
        return Err("the stored code differs from the submitted code".into());
    }
    let wellformed = c.kind == CodeKind::WellFormed;
    if !wellformed || (hostile && c.hybrid) {
        // must be an error, never an (empty) answer
        if slot_type != "Error" {
            if wellformed {
                // hostile label handled correctly
            } else {
                return Err(format!(
                    "code {code:?} is not a well-formed ADF but parse_only is {}",
                    v["acs_per_strategy"]["parse_only"]
                ));
            }
        }
        if slot_type == "Error" && wellformed {
            // K1: well-formed code with a label biodivine rejects
            outcome = known_or_fail(
                "K1-bd-hostile-label",
                format!("well-formed code {code:?} with parsing Hybrid is reported as error: {}", v["acs_per_strategy"]["parse_only"]["content"]),
            )?;
        }
        if slot_type == "Error" {
            if running_parse(&v) {
                // the task has ended (its result is stored) but is still listed
                let late = cl.get(&mut jar, "/adf/p")?.json()?;
                if running_parse(&late) {
                    return Err(format!(
                        "the parse task of {code:?} has ended (slot = {}) but is still reported as running",
                        v["acs_per_strategy"]["parse_only"]["content"]
                    ));
                }
            }
            let r = cl.json(&mut jar, "PUT", "/adf/p/solve", &json!({"strategy": "Ground"}))?;
            if r.status != 400 {
                return Err(format!("solve on a problem whose code could not be parsed answered {} {}", r.status, r.text()));
            }
            let again = cl.get(&mut jar, "/adf/p")?.json()?;
            for s in STRATEGIES {
                if again["acs_per_strategy"][s.slot()]["type"] == "Some" {
                    return Err(format!("unparseable code has an answer in slot {}", s.slot()));
                }
            }
            st.label(match c.kind {
                CodeKind::Malformed(_) => "malformed->Error",
                CodeKind::Undeclared(_) => "undeclared->Error",
                CodeKind::WellFormed => "hostile->Error",
            });
            st.nontrivial(stable_hash(&(&code, c.hybrid)), || json!({"code": code, "parsing": parsing, "parse_only": "Error"}));
            return Ok(outcome);
        }
    }
    if running_parse(&v) {
        return Err("parse_only is filled but the parse task is still reported as running".into());
    }
    check_slot(&v, "parse_only", None, c, &decl)?;
    let mut solved: BTreeSet<Strat> = BTreeSet::new();
    let mut rich = 0usize;
    let mut bursts = 0usize;
    let mut twice_global: BTreeSet<Strat> = BTreeSet::new();
    for rq in &c.reqs {
        match rq {
            Req::Solve(s) => {
                let r = cl.json(&mut jar, "PUT", "/adf/p/solve", &json!({"strategy": s.name()}))?;
                if solved.contains(s) {
                    if r.status != 409 {
                        return Err(format!("second solve with {} answered {} instead of 409", s.name(), r.status));
                    }
                    continue;
                }
                if r.status != 200 {
                    return Err(format!("PUT solve {}: status {} {}", s.name(), r.status, r.text()));
                }
                let task = json!({"type": "Solve", "content": s.name()});
                let v = poll_slot(&cl, &mut jar, "p", s.slot(), &task)?;
                if v["running_tasks"].as_array().map(|a| a.contains(&task)).unwrap_or(false) {
                    return Err(format!("slot {} is filled but the task is still reported as running", s.slot()));
                }
                let k = check_slot(&v, s.slot(), Some(*s), c, &decl)?;
                if k >= 2 || (c.adf.n() <= 7 && expected(&c.adf.acs, *s).iter().any(|i| i.iter().any(|t| !t.decided()))) {
                    rich += 1;
                }
                solved.insert(*s);
            }
            Req::Burst(list) => {
                let mut accepted: Vec<Strat> = Vec::new();
                let mut twice: BTreeSet<Strat> = BTreeSet::new();
                for s in list {
                    let r = cl.json(&mut jar, "PUT", "/adf/p/solve", &json!({"strategy": s.name()}))?;
                    let must_conflict = solved.contains(s);
                    match (must_conflict, r.status) {
                        (true, 409) => {}
                        // a strategy already requested in this burst may be refused (task known to be
                        // running) or accepted again (task not yet registered / just finished): both fine
                        (false, 409) if accepted.contains(s) => {}
                        (false, 200) => {
                            if !accepted.contains(s) {
                                accepted.push(*s)
                            } else {
                                twice.insert(*s);
                            }
                        }
                        (mc, st_) => {
                            return Err(format!(
                                "burst solve {}: status {st_} but {} was expected ({})",
                                s.name(),
                                if mc { 409 } else { 200 },
                                r.text()
                            ))
                        }
                    }
                }
                if accepted.len() >= 2 {
                    bursts += 1;
                }
                twice_global.extend(twice.iter().copied());
                for s in accepted {
                    let task = json!({"type": "Solve", "content": s.name()});
                    let v = poll_slot(&cl, &mut jar, "p", s.slot(), &task)?;
                    // (if the same strategy was accepted twice, a second task may legitimately still run)
                    if !twice.contains(&s) && v["running_tasks"].as_array().map(|a| a.contains(&task)).unwrap_or(false) {
                        return Err(format!("slot {} is filled but the task is still reported as running", s.slot()));
                    }
                    let k = check_slot(&v, s.slot(), Some(s), c, &decl)?;
                    if k >= 2 {
                        rich += 1;
                    }
                    solved.insert(s);
                }
                // every earlier result must have survived the overlapping writes
                let v = cl.get(&mut jar, "/adf/p")?.json()?;
                for s in &solved {
                    check_slot(&v, s.slot(), Some(*s), c, &decl).map_err(|e| format!("after overlapping solves: {e}"))?;
                }
            }
            Req::Get => {
                let v = cl.get(&mut jar, "/adf/p")?.json()?;
                check_slot(&v, "parse_only", None, c, &decl)?;
                for s in &solved {
                    check_slot(&v, s.slot(), Some(*s), c, &decl)?;
                }
                for s in STRATEGIES {
                    if !solved.contains(&s) && v["acs_per_strategy"][s.slot()]["type"] != "None" {
                        return Err(format!("slot {} is filled although it was never requested", s.slot()));
                    }
                }
                let unexpected: Vec<&Value> = v["running_tasks"]
                    .as_array()
                    .map(|a| a.iter().filter(|t| !twice_global.iter().chain(c.foreign_task.iter()).any(|s| **t == json!({"type": "Solve", "content": s.name()}))).collect())
                    .unwrap_or_default();
                if !unexpected.is_empty() {
                    return Err(format!("all requested tasks have stored their result but running_tasks = {}", v["running_tasks"]));
                }
            }
        }
    }
    st.label(parsing);
    for s in &solved {
        st.label(s.name());
    }
    st.count("http_problems", 1);
    if bursts > 0 {
        st.label("overlapping_solves");
    }
    if solved.len() >= 3 && rich >= 1 {
        st.nontrivial(stable_hash(&(&code, c.hybrid, &c.reqs)), || {
            json!({"code": code, "parsing": parsing, "requests": c.reqs.iter().map(|r| format!("{r:?}")).collect::<Vec<_>>()})
        });
    }
    Ok(outcome)
    })();
    *jar_in = jar;
    result
}

pub fn c16_check_entry(c: &WebCase, st: &mut Stats) -> CheckResult {
    c16_check(c, st)
}

/// only well-formed, mostly wide ADFs (the storage round trip of many statements), few requests
pub fn web_case_storage() -> BoxedStrategy<WebCase> {
    web_case()
        .prop_filter("well-formed", |c| c.kind == CodeKind::WellFormed && !c.adf.labels.iter().any(|l| l.contains('\0')))
        .boxed()
}

fn web_case() -> BoxedStrategy<WebCase> {
    let strat = proptest::sample::select(STRATEGIES.to_vec());
    (
        prop_oneof![
            9 => gen::adf_small(1, 5),
            // wide: 2..4 core statements with arbitrary conditions plus 8..10 statements that copy /
            // negate a core statement or are constant (few models, but 11..14 statements in storage)
            1 => (gen::adf_small(2, 4), proptest::collection::vec((0u8..4, any::<u16>()), 8..11)).prop_map(|(core, extra)| {
                let k = core.len();
                let mut acs = core;
                for (shape, x) in extra {
                    let a = F::Atom(gen::pick(x, k));
                    acs.push(match shape {
                        0 => F::Top,
                        1 => F::Bot,
                        2 => a,
                        _ => F::not(a),
                    });
                }
                acs
            }),
        ]
        .prop_flat_map(|acs| {
            let n = acs.len();
            (
                Just(acs),
                prop_oneof![12 => gen::labels(n, LabelClass::Quoted), 1 => gen::labels(n, LabelClass::Hostile)],
                gen::layout(n),
            )
        }),
        prop_oneof![
            10 => Just(CodeKind::WellFormed),
            2 => prop_oneof![
                any::<u16>().prop_map(Mutation::DelBracket),
                (any::<u16>(), any::<bool>()).prop_map(|(a, b)| Mutation::InsBracket(a, b)),
                any::<u16>().prop_map(Mutation::DelDot),
                (any::<u16>(), 0u8..6).prop_map(|(a, b)| Mutation::Arity(a, b)),
                any::<u8>().prop_map(Mutation::Garbage),
            ].prop_map(CodeKind::Malformed),
            1 => any::<u16>().prop_map(CodeKind::Undeclared),
        ],
        any::<bool>(),
        proptest::collection::vec(
            prop_oneof![
                4 => strat.clone().prop_map(Req::Solve),
                1 => Just(Req::Get),
                2 => proptest::collection::vec(strat, 2..6).prop_map(Req::Burst),
            ],
            1..9,
        ),
    )
        .prop_map(|((acs, labels, layout), kind, hybrid, reqs)| WebCase { adf: AdfCase { acs, labels, layout }, kind, hybrid, reqs, readd: None, foreign_task: None })
        .boxed()
}

/// a quarter of the cases delete the problem afterwards and add a second, different code under the same name
fn web_case_with_readd() -> BoxedStrategy<WebCase> {
    (web_case(), proptest::option::weighted(0.25, web_case()), 0u8..80)
        .prop_map(|(mut a, b, nul)| {
            // about one well-formed problem in a hundred has a statement whose (quoted) name contains a NUL character
            // (open finding K8: the result of such a problem is never stored)
            if nul == 0 && a.kind == CodeKind::WellFormed && !a.adf.labels.iter().any(|l| gen::is_bd_hostile(l)) {
                let l = &mut a.adf.labels[0];
                let at = l.char_indices().nth(1).map(|(i, _)| i).unwrap_or(l.len());
                l.insert(at, '\0');
                return a;
            }
            a.readd = b.map(Box::new);
            a
        })
        .boxed()
}

/// number of self-supporting statements of the slow problem: its stable run enumerates 2^n candidates
const SLOW_STATEMENTS: usize = 8;

#[derive(Clone, Debug, Serialize, Deserialize)]
pub struct StaleCase {
    pub second: WebCase,
    /// strategy of the task that is still running when its problem is deleted (index into the slow ones)
    pub stale: u8,
}

/// A problem is deleted while one of its solve tasks is still running, and another code is added under the same name:
/// whatever the late task does, the new problem may only ever show answers for ITS code.
fn c16_stale(c: &StaleCase, st: &mut Stats) -> CheckResult {
    let srv = server()?;
    let cl = srv.client();
    let mut jar = Jar::default();
    let stale = [Strat::Stable, Strat::StableNogood][(c.stale % 2) as usize];
    let slow: String = (0..SLOW_STATEMENTS).map(|i| format!("s(zz{i}).ac(zz{i},zz{i}).")).collect();
    let r = cl.multipart(&mut jar, "/adf/add", &[("name", "p"), ("code", &slow), ("parsing", "Naive")])?;
    if r.status != 200 {
        return Err(format!("POST /adf/add (slow problem): status {} {}", r.status, r.text()));
    }
    poll_slot(&cl, &mut jar, "p", "parse_only", &json!({"type": "Parse"}))?;
    let r = cl.json(&mut jar, "PUT", "/adf/p/solve", &json!({"strategy": stale.name()}))?;
    if r.status != 200 {
        return Err(format!("solve {} on the slow problem answered {} {}", stale.name(), r.status, r.text()));
    }
    let r = cl.delete(&mut jar, "/adf/p")?;
    if r.status != 200 {
        return Err(format!("DELETE /adf/p answered {} {}", r.status, r.text()));
    }
    // the second problem never asks for the stale strategy
    let mut second = c.second.clone();
    second.reqs = second
        .reqs
        .into_iter()
        .filter_map(|rq| match rq {
            Req::Solve(s) if s == stale => None,
            Req::Burst(v) => {
                let v: Vec<Strat> = v.into_iter().filter(|s| *s != stale).collect();
                if v.is_empty() {
                    None
                } else {
                    Some(Req::Burst(v))
                }
            }
            other => Some(other),
        })
        .collect();
    second.readd = None;
    second.foreign_task = Some(stale);
    let was_running = cl.get(&mut jar, "/adf/p").map(|g| g.status).unwrap_or(0);
    let _ = was_running;
    let out = run_problem(&cl, &mut jar, &second, st).map_err(|e| format!("new problem under the name of a problem deleted while its {} task was running: {e}", stale.name()))?;
    // wait until the late task is gone, then look again
    let t0 = Instant::now();
    let mut overlapped = false;
    loop {
        let g = cl.get(&mut jar, "/adf/p")?;
        if g.status != 200 {
            break;
        }
        let running = g.json()?["running_tasks"].as_array().map(|a| !a.is_empty()).unwrap_or(false);
        if !running {
            break;
        }
        overlapped = true;
        if t0.elapsed() > POLL_LIMIT {
            return Err(format!("INCONCLUSIVE: tasks are still running {} s after the last request: {}", POLL_LIMIT.as_secs(), g.text().chars().take(300).collect::<String>()));
        }
        std::thread::sleep(Duration::from_millis(20));
    }
    std::thread::sleep(Duration::from_millis(50));
    let g = cl.get(&mut jar, "/adf/p")?;
    if g.status == 200 && second.kind == CodeKind::WellFormed {
        let v = g.json()?;
        let ty = v["acs_per_strategy"][stale.slot()]["type"].as_str().unwrap_or("?").to_string();
        if ty != "None" {
            return Err(format!(
                "the new problem (code {}) shows an answer in slot {} that was never requested for it: the result of the deleted problem's task was stored into it ({})",
                v["code"],
                stale.slot(),
                v["acs_per_strategy"][stale.slot()].to_string().chars().take(200).collect::<String>()
            ));
        }
    }
    st.label(if overlapped { "stale:task-outlived-the-new-problem's-requests" } else { "stale:task-ended-during-the-new-problem's-requests" });
    if out == Outcome::Ok {
        st.nontrivial(stable_hash(&(stable_hash(&format!("{:?}", c.second.adf.acs)), c.stale)), || json!({"stale_strategy": stale.name(), "second_code": c.second.adf.text()}));
    }
    Ok(out)
}

pub fn c16(tier: Tier) -> PropSpec {
    PropSpec {
        id: "C16",
        level: "exploration",
        rule: "the real server binary (built from the current tree) runs against an in-process MongoDB wire-protocol stub; each case = \
               code (well-formed ADF n<=5 with labels of all classes, one tenth 'wide' ADFs with 11..14 statements whose expected answers are the library's own, computed in the harness | grammar-invalid mutant | grammar-valid with an undeclared \
               statement) x parsing Naive/Hybrid x a generated request order over the six strategies with repeated solves, interleaved \
               GETs and bursts of solve requests sent without waiting (overlapping tasks), by an anonymous (temporary) user; a quarter of the cases then delete the problem and add a different code under the same name (nothing of the deleted problem may survive). After add and every solve the slot is polled (bounded) and checked: \
               returned interpretations (root node TOP/BOT/inner per statement) as multiset == definitional answer; every graph: key \
               sets agree, each statement has exactly one root = the listed handle, leaves have no edges, inner nodes exactly one lo \
               and one hi edge, node set == closure of the roots, and following lo/hi edges under every total assignment consistent \
               with the shown model evaluates the acceptance condition. Code that is not a well-formed ADF: slot Error, solve 400, no \
               answer in any slot. A filled slot is never listed in running_tasks; repeated solve answers 409; unrequested slots stay \
               empty. Non-trivial: >= 3 strategies solved, one with >= 2 models or undecided statements.",
        assumptions: vec![
            "the MongoDB stub implements equality filters, $set on dotted paths, replacement, unique index faithfully",
            "'eventually' is bounded polling (40 s); a slot still empty while the task is listed as running is INCONCLUSIVE (exit 2), a slot empty after the task ended is a violation",
        ],
        exhaustive: false,
        parts: vec![
            Part::with_shrink("problems", tier.pick(1200, 12000), 60, web_case_with_readd, c16_check),
            // a problem deleted while a solve task of it is running, another code added under its name
            Part::with_shrink(
                "stale-writer",
                tier.pick(48, 480),
                20,
                || (web_case(), any::<u8>()).prop_map(|(second, stale)| StaleCase { second, stale }).boxed(),
                c16_stale,
            ),
        ],
    }
}
