//! C15: CLI faithfulness in every library mode; plus the CLI clauses of C08 (malformed input),
//! C13 (--counter nai) and C14 (--export / --import).

use crate::engine::*;
use crate::formula::F;
use crate::gen::{self, AdfCase, LabelClass};
use crate::known::known_or_fail;
use crate::oracle::{self, Interp, Oracle, Tv};
use crate::props::parser::{mutate, MutCase, Mutation};
use crate::refparse;
use crate::sut::Sort;
use proptest::prelude::*;
use serde::{Deserialize, Serialize};
use serde_json::json;
use std::path::PathBuf;
use std::process::Command;
use std::sync::atomic::{AtomicU64, Ordering};

pub fn cli_bin() -> PathBuf {
    PathBuf::from(
        std::env::var("VERIF_CLI_BIN").unwrap_or_else(|_| "/verif/target/repo/debug/adf-bdd".into()),
    )
}

static COUNTER: AtomicU64 = AtomicU64::new(0);

pub fn scratch_dir() -> PathBuf {
    let d = crate::verif_root()
        .join("target")
        .join("tmp")
        .join(format!("p{}", std::process::id()));
    let _ = std::fs::create_dir_all(&d);
    d
}

pub fn scratch_file(ext: &str) -> PathBuf {
    scratch_dir().join(format!("f{}.{ext}", COUNTER.fetch_add(1, Ordering::Relaxed)))
}

pub struct RunOut {
    pub code: Option<i32>,
    pub stdout: String,
    pub stderr: String,
}

pub fn run_cli(args: &[String]) -> Result<RunOut, String> {
    use std::io::Read;
    use std::process::Stdio;
    // an argument of the form ENV:NAME=VALUE sets an environment variable instead
    let (envs, args): (Vec<&String>, Vec<&String>) = args.iter().partition(|a| a.starts_with("ENV:"));
    let mut cmd = Command::new(cli_bin());
    cmd.args(args).env_remove("RUST_LOG");
    for e in envs {
        if let Some((k, v)) = e[4..].split_once('=') {
            cmd.env(k, v);
        }
    }
    let mut child = cmd
        .env("RUST_BACKTRACE", "0")
        .stdin(Stdio::null())
        .stdout(Stdio::piped())
        .stderr(Stdio::piped())
        .spawn()
        .map_err(|e| format!("cannot run {}: {e}", cli_bin().display()))?;
    let mut so = child.stdout.take().unwrap();
    let mut se = child.stderr.take().unwrap();
    let out = std::sync::Arc::new(std::sync::Mutex::new((Vec::<u8>::new(), std::time::Instant::now())));
    let out2 = out.clone();
    let t_out = std::thread::spawn(move || {
        let mut buf = [0u8; 4096];
        loop {
            match so.read(&mut buf) {
                Ok(0) | Err(_) => break,
                Ok(n) => {
                    let mut g = out2.lock().unwrap();
                    g.0.extend_from_slice(&buf[..n]);
                    g.1 = std::time::Instant::now();
                }
            }
        }
    });
    let t_err = std::thread::spawn(move || {
        let mut v = Vec::new();
        let _ = se.read_to_end(&mut v);
        v
    });
    // the process is given as long as it keeps producing output; it is killed when it has been
    // silent for 60 s (the inputs are tiny: the work itself takes milliseconds)
    let started = std::time::Instant::now();
    let mut killed = false;
    let status = loop {
        match child.try_wait() {
            Ok(Some(st)) => break Some(st),
            Ok(None) => {}
            Err(e) => return Err(format!("wait: {e}")),
        }
        let silent = out.lock().unwrap().1.elapsed();
        if silent > std::time::Duration::from_secs(60) && started.elapsed() > std::time::Duration::from_secs(60) {
            let _ = child.kill();
            let _ = child.wait();
            killed = true;
            break None;
        }
        std::thread::sleep(std::time::Duration::from_millis(if started.elapsed().as_millis() < 50 { 1 } else { 5 }));
    };
    let _ = t_out.join();
    let stderr = t_err.join().unwrap_or_default();
    let stdout = out.lock().unwrap().0.clone();
    Ok(RunOut {
        code: if killed { Some(-999) } else { status.and_then(|s| s.code()) },
        stdout: String::from_utf8_lossy(&stdout).into_owned(),
        stderr: String::from_utf8_lossy(&stderr).into_owned(),
    })
}

#[derive(Clone, Copy, Debug, Serialize, Deserialize, PartialEq, Eq, Hash, PartialOrd, Ord)]
pub enum Flag {
    Grd,
    Com,
    TwoVal,
    Stm,
    StmCa,
    StmCb,
    StmPre,
    StmRew,
    StmRew2,
    StmNg,
}
pub const ALL_FLAGS: [Flag; 10] = [
    Flag::Grd,
    Flag::Com,
    Flag::TwoVal,
    Flag::Stm,
    Flag::StmCa,
    Flag::StmCb,
    Flag::StmPre,
    Flag::StmRew,
    Flag::StmRew2,
    Flag::StmNg,
];
impl Flag {
    pub fn arg(self) -> &'static str {
        match self {
            Flag::Grd => "--grd",
            Flag::Com => "--com",
            Flag::TwoVal => "--twoval",
            Flag::Stm => "--stm",
            Flag::StmCa => "--stmca",
            Flag::StmCb => "--stmcb",
            Flag::StmPre => "--stmpre",
            Flag::StmRew => "--stmrew",
            Flag::StmRew2 => "--stmrew2",
            Flag::StmNg => "--stmng",
        }
    }
}

pub const MODES: [&str; 3] = ["naive", "biodivine", "hybrid"];
pub const HEUS: [&str; 4] = ["Simple", "MinModMinPathsMaxVarImp", "MinModMaxVarImpMinPaths", "Rand"];

#[derive(Clone, Copy, PartialEq, Eq, Debug)]
enum Duty {
    /// must print exactly the right set
    Must,
    /// the help text marks the flag "only hybrid lib-mode": nothing or the right set
    May,
    /// open finding K2: flag silently ignored in this mode; nothing (-> KNOWN) or the right set
    K2,
}

fn duty(mode: &str, f: Flag) -> Duty {
    match (mode, f) {
        ("hybrid", _) => Duty::Must,
        (_, Flag::Grd) | (_, Flag::Com) | (_, Flag::Stm) => Duty::Must,
        (_, Flag::StmPre) | (_, Flag::StmRew) | (_, Flag::StmRew2) => Duty::May,
        ("naive", Flag::StmNg) => Duty::Must,
        ("naive", Flag::StmCa) | ("naive", Flag::StmCb) | ("naive", Flag::TwoVal) => Duty::K2,
        ("biodivine", Flag::StmCa) | ("biodivine", Flag::StmCb) | ("biodivine", Flag::StmNg) | ("biodivine", Flag::TwoVal) => Duty::K2,
        _ => Duty::Must,
    }
}

#[derive(Clone, Debug, Serialize, Deserialize)]
pub struct CliCase {
    pub adf: AdfCase,
    pub sort: Sort,
    pub flags: Vec<Flag>,
    pub heu: Option<u8>,
    pub counter: bool,
    /// logging options (-q, -v, -vv, --rust_log X): log output goes to stderr and must not change stdout
    #[serde(default)]
    pub verbosity: u8,
    /// white space inserted after the first fact so that the file is larger than 64 / 128 KiB and a multi-byte character of a
    /// later label lies across that byte offset: (which multi-byte character, offset inside it, which multiple of 64 KiB)
    #[serde(default)]
    pub pad: Option<(u8, u8, u8)>,
    /// `--export <fresh file>` is given as well: what is printed must not change
    #[serde(default)]
    pub export: bool,
}

/// insert a run of white space after the first fact (see `CliCase::pad`)
pub fn pad_text(text: &str, pad: (u8, u8, u8)) -> String {
    // end of the first fact: the first '.' outside a quoted label
    let mut in_q = false;
    let mut cut = None;
    for (i, ch) in text.char_indices() {
        match ch {
            '"' => in_q = !in_q,
            '.' if !in_q => {
                cut = Some(i + 1);
                break;
            }
            _ => {}
        }
    }
    let Some(cut) = cut else { return text.to_string() };
    let rest = &text[cut..];
    let multi: Vec<(usize, usize)> = rest.char_indices().filter(|(_, c)| c.len_utf8() > 1).map(|(i, c)| (i, c.len_utf8())).collect();
    let boundary = 65536usize * (1 + pad.2 as usize % 2);
    let target = if multi.is_empty() {
        cut + rest.len().min(pad.0 as usize)
    } else {
        let (off, len) = multi[pad.0 as usize % multi.len()];
        cut + off + 1 + (pad.1 as usize % (len - 1))
    };
    if target >= boundary {
        return text.to_string();
    }
    let fill = boundary - target;
    let mut out = String::with_capacity(text.len() + fill);
    out.push_str(&text[..cut]);
    for i in 0..fill {
        out.push(match (i * 7 + pad.0 as usize) % 23 {
            0 => '\n',
            1 => '\t',
            _ => ' ',
        });
    }
    out.push_str(rest);
    out
}

/// parse one printed interpretation line into label -> value pairs (in printed order)
pub fn parse_line(line: &str) -> Result<Vec<(String, Tv)>, String> {
    let mut out = Vec::new();
    if !line.ends_with(' ') && !line.is_empty() {
        return Err(format!("line {line:?} does not end with a blank"));
    }
    for tok in line.split(' ').filter(|t| !t.is_empty()) {
        let mut ch = tok.chars();
        let v = match ch.next() {
            Some('T') => Tv::T,
            Some('F') => Tv::F,
            Some('u') => Tv::U,
            _ => return Err(format!("token {tok:?} is not T(..)/F(..)/u(..)")),
        };
        let rest = ch.as_str();
        if !rest.starts_with('(') || !rest.ends_with(')') || rest.len() < 2 {
            return Err(format!("token {tok:?} is not T(..)/F(..)/u(..)"));
        }
        out.push((rest[1..rest.len() - 1].to_string(), v));
    }
    Ok(out)
}

/// parse a printed line when the statement names are known (names may contain blanks / brackets):
/// at every position one of T( F( u( followed by the longest matching name and ") "
pub fn parse_line_known(line: &str, labels: &[String]) -> Result<Vec<(String, Tv)>, String> {
    let mut by_len: Vec<&String> = labels.iter().collect();
    by_len.sort_by_key(|l| std::cmp::Reverse(l.len()));
    let mut out = Vec::new();
    let mut rest = line;
    while !rest.is_empty() {
        let v = match rest.as_bytes()[0] {
            b'T' => Tv::T,
            b'F' => Tv::F,
            b'u' => Tv::U,
            _ => return Err(format!("cannot read {rest:?} in line {line:?}")),
        };
        if !rest[1..].starts_with('(') {
            return Err(format!("cannot read {rest:?} in line {line:?}"));
        }
        let body = &rest[2..];
        let hit = by_len.iter().find(|l| body.starts_with(l.as_str()) && body[l.len()..].starts_with(") "));
        match hit {
            Some(l) => {
                out.push(((*l).clone(), v));
                rest = &body[l.len() + 2..];
            }
            None => return Err(format!("line {line:?} names a statement that is not in the input at {body:?}")),
        }
    }
    Ok(out)
}

fn line_to_logical(line: &str, labels: &[String], sort: Sort) -> Result<Interp, String> {
    let pairs = parse_line_known(line, labels)?;
    if pairs.len() != labels.len() {
        return Err(format!("line {line:?} lists {} statements, the input declares {}", pairs.len(), labels.len()));
    }
    let mut out = vec![None; labels.len()];
    for (l, v) in &pairs {
        let i = labels
            .iter()
            .position(|x| x == l)
            .ok_or_else(|| format!("line {line:?} mentions {l:?} which is not a statement of the input"))?;
        if out[i].is_some() {
            return Err(format!("line {line:?} lists statement {l:?} twice"));
        }
        out[i] = Some(*v);
    }
    if sort == Sort::Lexi {
        let printed: Vec<&String> = pairs.iter().map(|p| &p.0).collect();
        let mut sorted = printed.clone();
        sorted.sort();
        if printed != sorted {
            return Err(format!("--lx: statements are not printed in byte-wise label order: {line:?}"));
        }
    }
    Ok(out.into_iter().map(|x| x.unwrap()).collect())
}

fn multiset_eq(a: &[Interp], b: &[Interp]) -> bool {
    let mut x = a.to_vec();
    let mut y = b.to_vec();
    x.sort();
    y.sort();
    x == y
}

fn sort_args(s: Sort) -> Vec<String> {
    match s {
        Sort::None => vec![],
        Sort::Lexi => vec!["--lx".into()],
        Sort::Alphanum => vec!["--an".into()],
    }
}

pub fn write_input(text: &str) -> Result<PathBuf, String> {
    let p = scratch_file("adf");
    std::fs::write(&p, text).map_err(|e| e.to_string())?;
    Ok(p)
}

fn c15_check(c: &CliCase, st: &mut Stats) -> CheckResult {
    let text = match c.pad {
        Some(p) => pad_text(&c.adf.text(), p),
        None => c.adf.text(),
    };
    if c.pad.is_some() {
        st.label(if text.len() > 131000 { "file>128KiB" } else if text.len() > 65000 { "file>64KiB" } else { "file small" });
    }
    let n = c.adf.n();
    let o = Oracle::new(&c.adf.acs);
    let (grd, _) = o.grounded();
    let complete = o.complete();
    let stable = oracle::stable(&c.adf.acs);
    let two = o.two_valued();
    let hostile = c.adf.labels.iter().any(|l| gen::is_bd_hostile(l));
    let mut flags = c.flags.clone();
    flags.sort();
    flags.dedup();
    let path = write_input(&text)?;
    let mut outcome = Outcome::Ok;
    let mut result: Result<(), String> = Ok(());
    let mut hung_modes: Vec<&str> = Vec::new();
    'modes: for mode in MODES {
        let mut args: Vec<String> = vec![path.display().to_string(), "--lib".into(), mode.into()];
        args.extend(sort_args(c.sort));
        args.extend(flags.iter().map(|f| f.arg().to_string()));
        if let Some(h) = c.heu {
            args.push("--heu".into());
            args.push(HEUS[(h as usize) % HEUS.len()].into());
        }
        if c.counter {
            args.push("--counter".into());
            args.push("nai".into());
        }
        match c.verbosity % 8 {
            1 => args.push("-q".into()),
            2 => args.push("-v".into()),
            3 => args.push("-vv".into()),
            4 => args.extend(["--rust_log".to_string(), "debug".to_string()]),
            5 => args.push("-vvv".into()),
            6 => args.push("ENV:RUST_LOG=trace".into()),
            _ => {}
        }
        let export_file = if c.export { Some(scratch_file("export.json")) } else { None };
        if let Some(f) = &export_file {
            args.push("--export".into());
            args.push(f.display().to_string());
        }
        let cmdline = format!("adf-bdd {}", args[1..].join(" ")).replace("ENV:", "env ");
        let run = run_cli(&args);
        if let Some(f) = &export_file {
            let _ = std::fs::remove_file(f);
        }
        let run = match run {
            Ok(r) => r,
            Err(e) => {
                result = Err(e);
                break;
            }
        };
        if c.sort == Sort::Alphanum && c.adf.labels.iter().any(|l| has_long_number(l)) {
            // K7 probe: exactly the known signature or correct behaviour
            if run.code == Some(101) && run.stderr.contains("attempt to multiply with overflow") && run.stderr.contains("lexical-sort") && run.stdout.is_empty() {
                match known_or_fail(
                    "K7-alphanum-20-digit-number",
                    format!("{cmdline}: well-formed input with a label containing a number of 20 or more digits makes --an panic: {}", first_line(&run.stderr)),
                ) {
                    Ok(o) => {
                        outcome = o;
                        continue;
                    }
                    Err(e) => {
                        result = Err(e);
                        break;
                    }
                }
            }
        }
        if hostile && mode != "naive" {
            // K1 probe: exactly the known signature or correct behaviour
            if run.code == Some(101) && run.stderr.contains("is invalid. Cannot use") && run.stdout.is_empty() {
                match known_or_fail(
                    "K1-bd-hostile-label",
                    format!("{cmdline}: well-formed input with label containing a character biodivine reserves makes the CLI panic: {}", first_line(&run.stderr)),
                ) {
                    Ok(o) => {
                        outcome = o;
                        continue;
                    }
                    Err(e) => {
                        result = Err(e);
                        break;
                    }
                }
            }
        }
        // killed after 60 s of silence: the normal output checks below decide. If the output is complete
        // and correct, the work was done and only the exit is missing: a violation; otherwise inconclusive.
        let hung = run.code == Some(-999);
        if hung {
            hung_modes.push(mode);
        }
        if run.code != Some(0) && !hung {
            result = Err(format!(
                "{cmdline}: exit status {:?} on well-formed input; stderr: {}",
                run.code,
                first_line(&run.stderr)
            ));
            break;
        }
        let mut lines: Vec<&str> = run.stdout.split('\n').collect();
        if lines.last() == Some(&"") {
            lines.pop();
        } else if !run.stdout.is_empty() {
            result = Err(format!("{cmdline}: stdout does not end with a newline"));
            break;
        }
        let mut idx = 0usize;
        if c.counter && mode != "biodivine" {
            // first line: model counts of the acceptance conditions (checked in C13's cli part)
            if lines.is_empty() || !lines[0].starts_with("ModelCounts") {
                result = Err(format!("{cmdline}: --counter nai printed no count line"));
                break;
            }
            idx = 1;
        }
        let mut interps: Vec<Interp> = Vec::new();
        for l in &lines[idx..] {
            match line_to_logical(l, &c.adf.labels, c.sort) {
                Ok(i) => interps.push(i),
                Err(e) => {
                    result = Err(format!("{cmdline}: {e}"));
                    break 'modes;
                }
            }
        }
        let mut pos = 0usize;
        if flags.contains(&Flag::Grd) {
            if interps.len() <= pos || interps[pos] != grd {
                result = Err(format!(
                    "{cmdline}: first line must be the grounded interpretation {} but output is {:?}",
                    oracle::show(&grd),
                    run.stdout
                ));
                break;
            }
            pos += 1;
        }
        if flags.contains(&Flag::Com) {
            let k = complete.len();
            if interps.len() < pos + k || !multiset_eq(&interps[pos..pos + k], &complete) {
                result = Err(format!(
                    "{cmdline}: the complete section must list {} (after {} grounded line(s)); output: {:?}",
                    oracle::show_set(&complete),
                    pos,
                    run.stdout
                ));
                break;
            }
            if interps[pos] != grd {
                result = Err(format!("{cmdline}: the complete section does not start with the grounded interpretation"));
                break;
            }
            pos += k;
        }
        // remaining blocks: two-valued and stable variants
        let rest = &interps[pos..];
        let tv_req = flags.contains(&Flag::TwoVal);
        let tv_duty = duty(mode, Flag::TwoVal);
        // --stmrew and --stmrew2 together print one block
        let mut stable_flags: Vec<Flag> = flags
            .iter()
            .copied()
            .filter(|f| matches!(f, Flag::Stm | Flag::StmCa | Flag::StmCb | Flag::StmPre | Flag::StmRew | Flag::StmRew2 | Flag::StmNg))
            .collect();
        if stable_flags.contains(&Flag::StmRew) && stable_flags.contains(&Flag::StmRew2) {
            stable_flags.retain(|f| *f != Flag::StmRew2);
        }
        let must_b = stable_flags.iter().filter(|f| duty(mode, **f) == Duty::Must).count();
        let max_b = stable_flags.len();
        let a_range: Vec<usize> = if !tv_req {
            vec![0]
        } else if tv_duty == Duty::Must {
            vec![1]
        } else {
            vec![1, 0]
        };
        let mut matched: Option<(usize, usize)> = None;
        'search: for &a in &a_range {
            for b in (must_b..=max_b).rev() {
                let mut exp: Vec<Interp> = Vec::new();
                for _ in 0..a {
                    exp.extend(two.iter().cloned());
                }
                for _ in 0..b {
                    exp.extend(stable.iter().cloned());
                }
                if multiset_eq(rest, &exp) {
                    matched = Some((a, b));
                    break 'search;
                }
            }
        }
        match matched {
            None => {
                result = Err(format!(
                    "{cmdline}: after grounded/complete the output must consist of {} two-valued block(s) {} and {}..{} stable block(s) {}; got {:?}",
                    if tv_req { 1 } else { 0 },
                    oracle::show_set(&two),
                    must_b,
                    max_b,
                    oracle::show_set(&stable),
                    run.stdout
                ));
                break;
            }
            Some((a, b)) => {
                // K2: a requested, not hybrid-only flag printed nothing in this mode
                let mut missing: Vec<Flag> = Vec::new();
                if tv_req && a == 0 && !two.is_empty() {
                    missing.push(Flag::TwoVal);
                }
                if b < max_b && !stable.is_empty() {
                    let k2: Vec<Flag> = stable_flags.iter().copied().filter(|f| duty(mode, *f) == Duty::K2).collect();
                    let may = stable_flags.iter().filter(|f| duty(mode, **f) == Duty::May).count();
                    if max_b - b > may {
                        missing.extend(k2);
                    }
                }
                for f in missing {
                    match known_or_fail(
                        &format!("K2:{mode}:{}", f.arg()),
                        format!("{cmdline}: {} is silently ignored in --lib {mode} (nothing printed, exit 0)", f.arg()),
                    ) {
                        Ok(o) => outcome = o,
                        Err(e) => {
                            result = Err(e);
                            break 'modes;
                        }
                    }
                }
            }
        }
    }
    let _ = std::fs::remove_file(&path);
    if !hung_modes.is_empty() {
        return match result {
            Ok(()) => Err(format!(
                "adf-bdd --lib {} {:?}: the process printed its complete and correct output and then never terminated (killed after 60 s without further output)",
                hung_modes[0], flags.iter().map(|f| f.arg()).collect::<Vec<_>>()
            )),
            Err(e) => Err(format!("INCONCLUSIVE: a CLI process was killed after 60 s of silence and its output so far is not the complete answer ({e})")),
        };
    }
    result?;
    st.count("process_runs", 3);
    for f in &flags {
        st.label(f.arg());
    }
    if let Some(h) = c.heu {
        st.label(&format!("--heu {}", HEUS[(h as usize) % HEUS.len()]));
    }
    st.label(&format!("sort:{:?}", c.sort));
    if hostile {
        st.label("bd-hostile-label");
    }
    let sem_flags = flags.len();
    if sem_flags >= 2 && complete.len() >= 2 {
        st.nontrivial(stable_hash(&(&c.adf.acs, &c.adf.labels, &c.adf.layout, c.sort, &flags, c.heu, c.counter)), || {
            json!({"file": text, "flags": flags.iter().map(|f| f.arg()).collect::<Vec<_>>(), "sort": format!("{:?}", c.sort),
                   "heu": c.heu.map(|h| HEUS[(h as usize) % HEUS.len()]), "n": n})
        });
    }
    Ok(outcome)
}

fn first_line(s: &str) -> String {
    s.lines().find(|l| !l.trim().is_empty()).unwrap_or("").chars().take(300).collect()
}

/// labels usable on the command line output: no line breaks (output lines are read with the known names)
fn cli_labels(n: usize, hostile: bool) -> BoxedStrategy<Vec<String>> {
    gen::labels(n, if hostile { LabelClass::Hostile } else { LabelClass::Quoted })
        .prop_map(|v| {
            v.into_iter()
                .enumerate()
                .map(|(i, l)| if l.contains('\n') || l.contains('\r') { format!("w{i}") } else { l })
                .collect::<Vec<_>>()
        })
        .prop_filter("distinct", |v| {
            let mut s = v.clone();
            s.sort();
            s.dedup();
            s.len() == v.len()
        })
        .boxed()
}

pub fn cli_adf(lo: usize, hi: usize, hostile_weight: u32) -> BoxedStrategy<AdfCase> {
    gen::adf_small(lo, hi)
        .prop_flat_map(move |acs| {
            let n = acs.len();
            (
                Just(acs),
                prop_oneof![20 => cli_labels(n, false), hostile_weight => cli_labels(n, true)],
                gen::layout(n),
            )
        })
        .prop_map(|(acs, labels, layout)| AdfCase { acs, labels, layout })
        .boxed()
}

/// CLI part for the semantics properties: the flags named in the property's observation points, in all
/// three library modes, with the C15 oracle
pub fn sem_cli_part(name: &'static str, allowed: &'static [Flag], cases: u32) -> Box<dyn DynPart> {
    Part::with_shrink(
        name,
        cases,
        200,
        move || {
            (cli_case(), proptest::sample::subsequence(allowed.to_vec(), 1..=allowed.len()))
                .prop_map(|(mut c, flags)| {
                    c.flags = flags;
                    c
                })
                .boxed()
        },
        c15_check,
    )
}

/// input files larger than 64 / 128 KiB (white space after the first fact) whose labels contain multi-byte characters,
/// one of which lies across the 64 KiB / 128 KiB byte offset; same oracle as every other CLI run
pub fn padded_cli_part(name: &'static str, cases: u32) -> Box<dyn DynPart> {
    Part::with_shrink(
        name,
        cases,
        60,
        || {
            (cli_case(), proptest::sample::subsequence(vec![Flag::Grd, Flag::Com, Flag::Stm], 1..=3), any::<(u8, u8, u8)>(), proptest::collection::vec(0u8..4, 6))
                .prop_map(|(mut c, flags, pad, marks)| {
                    c.flags = flags;
                    c.heu = None;
                    c.counter = false;
                    for (i, l) in c.adf.labels.iter_mut().enumerate() {
                        // labels with characters of 2, 3 and 4 bytes (quoted by the renderer)
                        match marks[i % marks.len()] {
                            0 => l.push('\u{e9}'),
                            1 => l.push('\u{20ac}'),
                            2 => l.push_str("\u{1f600}\u{e4}"),
                            _ => {}
                        }
                    }
                    c.adf.labels[0].push('\u{20ac}');
                    c.pad = Some(pad);
                    c
                })
                .boxed()
        },
        c15_check,
    )
}

/// wide input files through the CLI (58..135 statements: cyclic core, long chains, parity over all statements): grounded
/// in all three modes, the nogood-learner flags with every heuristic in hybrid mode (and --stmng in naive mode); one flag
/// per process run, so that every printed line is a model of that flag
#[derive(Clone, Debug, Serialize, Deserialize)]
pub struct WideCli {
    pub sem: crate::props::sem::SemCase,
    pub heu: u8,
}

fn wide_cli_check(c: &WideCli, st: &mut Stats) -> CheckResult {
    let text = c.sem.adf.text();
    let labels = &c.sem.adf.labels;
    let ex = crate::props::sem::expect_of(&c.sem.adf.acs);
    let path = write_input(&text)?;
    let heu = HEUS[c.heu as usize % HEUS.len()];
    let mut res: Result<(), String> = Ok(());
    let runs: Vec<(&str, Vec<&str>, Vec<Interp>)> = vec![
        ("naive", vec!["--grd"], vec![ex.grd.clone()]),
        ("biodivine", vec!["--grd"], vec![ex.grd.clone()]),
        ("hybrid", vec!["--grd"], vec![ex.grd.clone()]),
        ("hybrid", vec!["--stmng", "--heu", heu], ex.stable.clone()),
        ("hybrid", vec!["--twoval", "--heu", heu], ex.two.clone()),
        ("naive", vec!["--stmng", "--heu", heu], ex.stable.clone()),
    ];
    for (mode, flags, want) in runs {
        let mut args: Vec<String> = vec![path.display().to_string(), "--lib".into(), mode.into()];
        args.extend(sort_args(c.sem.sort));
        args.extend(flags.iter().map(|f| f.to_string()));
        let cmdline = format!("adf-bdd {}", args[1..].join(" "));
        let run = match run_cli(&args) {
            Ok(r) => r,
            Err(e) => {
                res = Err(e);
                break;
            }
        };
        if run.code == Some(-999) {
            res = Err(format!("INCONCLUSIVE: {cmdline} was silent for 60 s on {} statements", labels.len()));
            break;
        }
        if run.code != Some(0) {
            res = Err(format!("{cmdline}: exit status {:?} on well-formed input with {} statements; stderr: {}", run.code, labels.len(), first_line(&run.stderr)));
            break;
        }
        let mut got = Vec::new();
        for line in run.stdout.lines().filter(|l| !l.is_empty()) {
            match line_to_logical(line, labels, c.sem.sort) {
                Ok(i) => got.push(i),
                Err(e) => {
                    res = Err(format!("{cmdline}: {e}"));
                    break;
                }
            }
        }
        if res.is_err() {
            break;
        }
        if !multiset_eq(&got, &want) {
            res = Err(format!("{cmdline}: printed {} but the definition gives {} ({} statements)", oracle::show_set(&got), oracle::show_set(&want), labels.len()));
            break;
        }
    }
    let _ = std::fs::remove_file(&path);
    res?;
    st.label(&format!("heu={heu}"));
    st.nontrivial(stable_hash(&(text, c.heu)), || json!({"statements": labels.len(), "heuristic": heu, "stable_models": ex.stable.len(), "two_valued_models": ex.two.len()}));
    Ok(Outcome::Ok)
}

pub fn wide_cli_part(name: &'static str, cases: u32) -> Box<dyn DynPart> {
    Part::with_shrink(
        name,
        cases,
        20,
        || (prop_oneof![
            // half of the cases: one condition mentions 64 and more statements (2^64 and more paths)
            2 => crate::props::sem::sem_case_wide_chains(66, 90).prop_filter("a condition over 64+ statements", |c| c.adf.acs.iter().any(|f| f.support().len() >= 64)),
            1 => crate::props::sem::sem_case_wide_chains(58, 90),
            1 => crate::props::sem::sem_case_wide_core(60, 135, 4)], prop_oneof![1 => Just(0u8), 2 => Just(1u8), 2 => Just(2u8), 1 => Just(3u8)]).prop_map(|(sem, heu)| WideCli { sem, heu }).boxed(),
        wide_cli_check,
    )
}

/// a run of 20 or more decimal digits (a number that does not fit 64 bits)
pub fn has_long_number(l: &str) -> bool {
    let mut run = 0;
    for ch in l.chars() {
        if ch.is_ascii_digit() {
            run += 1;
            if run >= 20 {
                return true;
            }
        } else {
            run = 0;
        }
    }
    false
}

/// labels that are or contain numbers of 18..30 digits (numeric comparison beyond 64 bits), all sorting flags
pub fn bignum_cli_part(name: &'static str, cases: u32) -> Box<dyn DynPart> {
    Part::with_shrink(
        name,
        cases,
        60,
        || {
            (cli_case(), proptest::sample::subsequence(vec![Flag::Grd, Flag::Com, Flag::Stm], 1..=3), proptest::collection::vec(("[1-9][0-9]{17,29}", 0u8..4), 6), prop_oneof![1 => Just(Sort::None), 1 => Just(Sort::Lexi), 3 => Just(Sort::Alphanum)])
                .prop_map(|(mut c, flags, nums, sort)| {
                    c.flags = flags;
                    c.heu = None;
                    c.counter = false;
                    c.sort = sort;
                    for (i, l) in c.adf.labels.iter_mut().enumerate() {
                        let (num, how) = &nums[i % nums.len()];
                        let cand = match how {
                            0 => num.clone(),
                            1 => format!("a{num}"),
                            2 => format!("{num}b{i}"),
                            _ => l.clone(),
                        };
                        *l = cand;
                    }
                    // labels must stay pairwise different
                    let mut seen = std::collections::HashSet::new();
                    for (i, l) in c.adf.labels.iter_mut().enumerate() {
                        if !seen.insert(l.clone()) {
                            l.push_str(&format!("x{i}"));
                            seen.insert(l.clone());
                        }
                    }
                    c
                })
                .boxed()
        },
        c15_check,
    )
}

/// input files with one condition nested hundreds of levels deep (all connectives), through the CLI in all three modes
#[derive(Clone, Debug, Serialize, Deserialize, Hash)]
pub struct DeepCli {
    pub n: u8,
    pub depth: u16,
    pub spec: Vec<(u8, u8)>,
    pub flags: u8,
}

fn deep_cli_check(c: &DeepCli, st: &mut Stats) -> CheckResult {
    let n = (c.n as usize).clamp(2, 4);
    let mut acs: Vec<F> = (0..n).map(|i| F::Atom((i + 1) % n)).collect();
    let mut f = F::Atom(0);
    for d in 0..c.depth as usize {
        let (k, a) = c.spec[d % c.spec.len()];
        let x = F::Atom(a as usize % n);
        f = match k % 7 {
            0 => F::not(f),
            1 => F::and(x, f),
            2 => F::or(f, x),
            3 => F::imp(f, x),
            4 => F::imp(x, f),
            5 => F::iff(x, f),
            _ => F::xor(f, x),
        };
    }
    acs[0] = f;
    let adf = AdfCase { acs, labels: (0..n).map(|i| format!("d{i}")).collect(), layout: gen::Layout { keys: (0..2 * n as u16).collect(), ws: vec![0] } };
    let mut flags = vec![Flag::Grd];
    if c.flags & 1 == 1 {
        flags.push(Flag::Com);
    }
    if c.flags & 2 == 2 {
        flags.push(Flag::Stm);
    }
    let case = CliCase { adf, sort: Sort::None, flags, heu: None, counter: false, verbosity: 0, pad: None, export: false };
    let r = c15_check(&case, st);
    // the nested structure itself must not be dropped recursively on a small stack later on: fine at these depths
    st.label(&format!("nesting>={}", (c.depth / 100) * 100));
    r
}

pub fn deep_cli_part(name: &'static str, cases: u32) -> Box<dyn DynPart> {
    Part::with_shrink(
        name,
        cases,
        40,
        || (2u8..5, 500u16..900, proptest::collection::vec((0u8..7, any::<u8>()), 37..90), 0u8..4).prop_map(|(n, depth, spec, flags)| DeepCli { n, depth, spec, flags }).boxed(),
        deep_cli_check,
    )
}

fn cli_case() -> BoxedStrategy<CliCase> {
    (
        cli_adf(1, 5, 1),
        prop_oneof![Just(Sort::None), Just(Sort::Lexi), Just(Sort::Alphanum)],
        proptest::sample::subsequence(ALL_FLAGS.to_vec(), 1..=6),
        proptest::option::weighted(0.6, 0u8..4),
        proptest::bool::weighted(0.15),
        0u8..8,
    )
        .prop_map(|(adf, sort, flags, heu, counter, verbosity)| {
            // every sixth case (by its verbosity / flag draw) also exports the state into a fresh file
            let export = (verbosity as usize + flags.len()) % 6 == 0;
            CliCase { adf, sort, flags, heu, counter, verbosity, pad: None, export }
        })
        .boxed()
}

pub fn c15(tier: Tier) -> PropSpec {
    PropSpec {
        id: "C15",
        level: "exploration",
        rule: "generated input file (ADF n<=5; labels plain / numeric / keyword-like / quoted incl. blanks and tabs / occasionally with a \
               character biodivine reserves; arbitrary fact order and layout) x {none,--lx,--an} x subset of the ten semantics flags x \
               --heu (absent or each of the four listed values) x --counter nai (sometimes) x logging options (-q, -v.., --rust_log: stdout must not change); each case is run in ALL three --lib modes \
               with the binary built from the current tree. Oracle: exit 0; first line grounded, then the complete set (grounded \
               first), then blocks that form exactly one two-valued set and one stable set per requested variant (flags the help marks \
               'only hybrid' may print nothing outside hybrid mode); every line names every statement exactly once; --lx prints in \
               byte-wise order. Malformed files (grammar-invalid mutants, and grammar-valid files that use an undeclared statement): part 'malformed' (exit != 0, empty stdout, all modes). Known open findings are \
               matched by exact signature only (K1 reserved characters, K2 silently ignored flags). Non-trivial: >= 2 semantics \
               flags on an ADF with >= 2 complete models.",
        assumptions: vec![
            "labels contain no line breaks (output is split into lines); lines are read with the known statement names",
            "oracle.rs (n<=5)",
        ],
        exhaustive: false,
        parts: vec![
            Part::with_shrink("runs", tier.pick(2500, 25000), 300, cli_case, c15_check),
            Part::with_shrink("malformed", tier.pick(300, 3000), 300, malformed_case, cli_reject_check),
            padded_cli_part("runs-padded", tier.pick(120, 1200)),
            // one condition nested 500..900 levels deep
            deep_cli_part("runs-deep", tier.pick(60, 600)),
            // labels with numbers of 18..30 digits
            bignum_cli_part("runs-bignum", tier.pick(150, 1500)),
            // 58..135 statements
            wide_cli_part("runs-wide", tier.pick(16, 600)),
        ],
    }
}

// ------------------------------------------------------------------------------------------
// malformed input through the CLI (C08 / C15)

fn malformed_case() -> BoxedStrategy<MutCase> {
    (
        cli_adf(1, 4, 1),
        prop_oneof![
            any::<u16>().prop_map(Mutation::DelBracket),
            (any::<u16>(), any::<bool>()).prop_map(|(a, b)| Mutation::InsBracket(a, b)),
            any::<u16>().prop_map(Mutation::DelDot),
            (any::<u16>(), 0u8..6).prop_map(|(a, b)| Mutation::Arity(a, b)),
            any::<u8>().prop_map(Mutation::Garbage),
        ],
    )
        .prop_map(|(adf, m)| MutCase { adf, m })
        .boxed()
}

/// a grammar-valid text that is no well-formed ADF: one statement is used (as head of an ac fact or
/// inside a formula) but never declared
pub fn undeclare(c: &AdfCase, which: u16) -> Option<String> {
    let (text, decl) = gen::render(&c.acs, &c.labels, &c.layout);
    let victim = decl[gen::pick(which, decl.len())];
    let fact = format!("s({}).", gen::quote(&c.labels[victim]));
    let p = text.find(&fact)?;
    let rest = format!("{}{}", &text[..p], &text[p + fact.len()..]);
    let rest = rest.trim_start().to_string();
    if rest.is_empty() || !refparse::accepts(&rest) {
        return None;
    }
    Some(rest)
}

pub fn cli_reject_check(c: &MutCase, st: &mut Stats) -> CheckResult {
    let text = c.adf.text();
    let mutant = if let Mutation::Garbage(g) = &c.m {
        if g % 3 == 0 {
            // every third 'garbage' case is the undeclared-statement class instead
            match undeclare(&c.adf, *g as u16 * 257) {
                Some(t) => {
                    st.label("not-an-ADF:undeclared-statement");
                    Some(t)
                }
                None => None,
            }
        } else {
            None
        }
    } else {
        None
    };
    let mutant = match (&c.m, mutant) {
        (Mutation::Garbage(g), None) if g % 16 == 1 => {
            st.label("malformed:empty-or-blank-file");
            ["", " ", "\n", "\n\n  \t"][(*g as usize / 16) % 4].to_string()
        }
        (_, m) => match m {
        Some(m) => m,
        None => {
            let Some((mutant, _)) = mutate(&text, &c.m) else {
                return Ok(Outcome::Ok);
            };
            if refparse::accepts(&mutant) {
                st.label("discarded:reference_accepts_mutant");
                return Ok(Outcome::Ok);
            }
            mutant
        }
        },
    };
    let path = write_input(&mutant)?;
    let mut res = Ok(());
    for mode in MODES {
        let args: Vec<String> = vec![
            path.display().to_string(),
            "--lib".into(),
            mode.into(),
            "--grd".into(),
            "--com".into(),
            "--stm".into(),
        ];
        let run = run_cli(&args)?;
        if run.code == Some(0) {
            res = Err(format!("--lib {mode}: exit status 0 for malformed input {mutant:?}"));
            break;
        }
        if !run.stdout.is_empty() {
            res = Err(format!(
                "--lib {mode}: malformed input {mutant:?} produced output {:?}",
                run.stdout
            ));
            break;
        }
    }
    let _ = std::fs::remove_file(&path);
    res?;
    st.count("process_runs", 3);
    st.nontrivial(stable_hash(&mutant), || json!({"malformed_file": mutant, "mutation": format!("{:?}", c.m)}));
    Ok(Outcome::Ok)
}

// ------------------------------------------------------------------------------------------
// C13: --counter nai

pub fn cli_counter_check(c: &(AdfCase, Sort, bool), st: &mut Stats) -> CheckResult {
    let (adf, sort, hybrid) = c;
    let text = adf.text();
    let n = adf.n();
    let path = write_input(&text)?;
    let mode = if *hybrid { "hybrid" } else { "naive" };
    let mut args: Vec<String> = vec![path.display().to_string(), "--lib".into(), mode.into(), "--counter".into(), "nai".into(), "--grd".into()];
    args.extend(sort_args(*sort));
    let run = run_cli(&args)?;
    let _ = std::fs::remove_file(&path);
    if run.code != Some(0) {
        return Err(format!("--lib {mode} --counter nai: exit {:?}: {}", run.code, first_line(&run.stderr)));
    }
    let mut lines = run.stdout.lines();
    let counts_line = lines.next().unwrap_or("");
    let grd_line = lines.next().ok_or("no grounded line after the counts")?;
    // statement order = order of the grounded line
    let order: Vec<String> = parse_line_known(&format!("{grd_line}"), &adf.labels)?.into_iter().map(|p| p.0).collect();
    let mut counts: Vec<(u128, u128)> = Vec::new();
    for part in counts_line.split("ModelCounts").skip(1) {
        let nums: Vec<u128> = part
            .split(|ch: char| !ch.is_ascii_digit())
            .filter(|s| !s.is_empty())
            .map(|s| s.parse().unwrap_or(0))
            .collect();
        if nums.len() != 2 {
            return Err(format!("cannot read counts from {counts_line:?}"));
        }
        counts.push((nums[0], nums[1])); // cmodels, models
    }
    if counts.len() != n || order.len() != n {
        return Err(format!("--counter nai printed {} counts for {n} statements: {counts_line:?}", counts.len()));
    }
    let mut nt = false;
    for (pos, l) in order.iter().enumerate() {
        let s = adf.labels.iter().position(|x| x == l).ok_or("unknown label in output")?;
        let sat = (0..(1u64 << n)).filter(|&a| adf.acs[s].eval_bits(a)).count() as u128;
        let unsat = (1u128 << n) - sat;
        let (cm, m) = counts[pos];
        if cm + m == 0 || m * unsat != cm * sat {
            return Err(format!(
                "--lib {mode} --counter nai: statement {l:?} printed cmodels={cm} models={m}, not in the ratio of {sat} satisfying to {unsat} falsifying assignments"
            ));
        }
        nt |= sat > 0 && unsat > 0 && adf.acs[s].support().len() >= 2;
    }
    st.count("process_runs", 1);
    if nt {
        st.nontrivial(stable_hash(&(&adf.acs, &adf.labels, *sort, *hybrid)), || json!({"file": text, "mode": mode, "counts": counts_line}));
    }
    Ok(Outcome::Ok)
}

pub fn cli_counter_strategy() -> BoxedStrategy<(AdfCase, Sort, bool)> {
    (
        cli_adf(1, 5, 0),
        prop_oneof![Just(Sort::None), Just(Sort::Lexi), Just(Sort::Alphanum)],
        any::<bool>(),
    )
        .boxed()
}

// ------------------------------------------------------------------------------------------
// C14: --export / --import

#[derive(Clone, Debug, Serialize, Deserialize)]
pub struct ExportCase {
    pub adf: AdfCase,
    pub sort: Sort,
    pub existing: Option<String>,
    pub flags: Vec<Flag>,
}

pub fn cli_export_strategy() -> BoxedStrategy<ExportCase> {
    (
        cli_adf(1, 5, 1),
        prop_oneof![Just(Sort::None), Just(Sort::Lexi), Just(Sort::Alphanum)],
        proptest::option::of(prop_oneof![Just(String::new()), Just("precious data\n".to_string()), Just("{\"ordering\":0}".to_string()), "[ -~]{0,40}"]),
        proptest::sample::subsequence(vec![Flag::Grd, Flag::Com, Flag::Stm, Flag::StmNg], 1..=4),
    )
        .prop_map(|(adf, sort, existing, flags)| ExportCase { adf, sort, existing, flags })
        .boxed()
}

pub fn cli_export_check(c: &ExportCase, st: &mut Stats) -> CheckResult {
    let text = c.adf.text();
    let input = write_input(&text)?;
    // the export target lives in a directory of its own, next to files that look like earlier exports,
    // temporary or backup files of the same stem: none of them may be touched
    let dir = scratch_dir().join(format!("exp{}", COUNTER.fetch_add(1, Ordering::Relaxed)));
    std::fs::create_dir_all(&dir).map_err(|e| e.to_string())?;
    let export = dir.join("model.json");
    let decoys: Vec<(PathBuf, String)> = ["model.tmp", "model.json.tmp", "model.bak", "model.json~", ".model.json.swp", "model", "model.json.new"]
        .iter()
        .map(|n| (dir.join(n), format!("earlier export kept as {n}\n")))
        .collect();
    for (p, content) in &decoys {
        std::fs::write(p, content).map_err(|e| e.to_string())?;
    }
    if let Some(e) = &c.existing {
        std::fs::write(&export, e).map_err(|e| e.to_string())?;
    }
    let sem: Vec<String> = c.flags.iter().map(|f| f.arg().to_string()).collect();
    let cleanup = |paths: &[&PathBuf]| {
        for p in paths {
            let _ = std::fs::remove_file(p);
        }
    };
    let mut base: Vec<String> = vec![input.display().to_string(), "--lib".into(), "naive".into()];
    base.extend(sort_args(c.sort));
    base.extend(sem.iter().cloned());
    let direct = run_cli(&base)?;
    let mut with_export = base.clone();
    with_export.push("--export".into());
    with_export.push(export.display().to_string());
    let exp_run = run_cli(&with_export)?;
    let res = (|| -> Result<bool, String> {
        if direct.code != Some(0) || exp_run.code != Some(0) {
            return Err(format!(
                "exit status {:?} / {:?} (direct / with --export): {}",
                direct.code,
                exp_run.code,
                first_line(&exp_run.stderr)
            ));
        }
        if exp_run.stdout != direct.stdout {
            return Err("--export changes the printed answers".into());
        }
        match &c.existing {
            Some(e) => {
                let now = std::fs::read(&export).map_err(|e| e.to_string())?;
                if now != e.as_bytes() {
                    return Err(format!(
                        "--export overwrote an existing file (content was {e:?}, is now {} bytes)",
                        now.len()
                    ));
                }
                // the same promise in every library mode (and without --lib at all)
                for mode_args in [vec!["--lib", "biodivine"], vec!["--lib", "hybrid"], vec![]] {
                    let mut a: Vec<String> = vec![input.display().to_string()];
                    a.extend(mode_args.iter().map(|x| x.to_string()));
                    a.extend(sort_args(c.sort));
                    a.extend(sem.iter().cloned());
                    a.push("--export".into());
                    a.push(export.display().to_string());
                    let hostile = c.adf.labels.iter().any(|l| gen::is_bd_hostile(l));
                    let r = run_cli(&a)?;
                    if r.code != Some(0) && !hostile {
                        return Err(format!("{mode_args:?} --export onto an existing file: exit {:?}", r.code));
                    }
                    let now = std::fs::read(&export).map_err(|e| e.to_string())?;
                    if now != e.as_bytes() {
                        return Err(format!(
                            "{mode_args:?}: --export overwrote an existing file (content was {e:?}, is now {} bytes)",
                            now.len()
                        ));
                    }
                }
                Ok(false)
            }
            None => {
                if !export.exists() {
                    return Err("--export did not create the file".into());
                }
                // import must print what the direct run prints
                let mut imp: Vec<String> = vec![export.display().to_string(), "--import".into(), "--lib".into(), "naive".into()];
                imp.extend(sem.iter().cloned());
                // sorting options given together with --import must not relabel the stored diagrams: every
                // printed line, read as a map from statement name to value, must be one the direct run prints
                let extra_sort = match c.adf.labels.len() % 3 {
                    0 => vec![],
                    1 => vec!["--lx".to_string()],
                    _ => vec!["--an".to_string()],
                };
                if !extra_sort.is_empty() {
                    let mut imp2 = imp.clone();
                    imp2.extend(extra_sort.iter().cloned());
                    let r2 = run_cli(&imp2)?;
                    if r2.code != Some(0) {
                        return Err(format!("--import {extra_sort:?}: exit {:?}: {}", r2.code, first_line(&r2.stderr)));
                    }
                    let to_maps = |out: &str| -> Result<Vec<Vec<(String, Tv)>>, String> {
                        out.lines()
                            .map(|l| {
                                let mut m = parse_line_known(l, &c.adf.labels)?;
                                m.sort();
                                Ok(m)
                            })
                            .collect()
                    };
                    let (mut a, mut b) = (to_maps(&r2.stdout)?, to_maps(&direct.stdout)?);
                    a.sort();
                    b.sort();
                    if a != b {
                        return Err(format!(
                            "--import with {extra_sort:?} prints {:?}, which names other statement values than the direct run {:?}",
                            r2.stdout, direct.stdout
                        ));
                    }
                }
                let imp_run = run_cli(&imp)?;
                if imp_run.code != Some(0) {
                    return Err(format!("--import: exit {:?}: {}", imp_run.code, first_line(&imp_run.stderr)));
                }
                if imp_run.stdout != direct.stdout {
                    return Err(format!(
                        "--import prints {:?} but the direct run prints {:?}",
                        imp_run.stdout, direct.stdout
                    ));
                }
                // a second export must not touch the file now existing
                let before = std::fs::read(&export).map_err(|e| e.to_string())?;
                let again = run_cli(&with_export)?;
                if again.code != Some(0) {
                    return Err(format!("second --export onto the existing file: exit {:?}", again.code));
                }
                if std::fs::read(&export).map_err(|e| e.to_string())? != before {
                    return Err("second --export modified the existing export file".into());
                }
                Ok(true)
            }
        }
    })();
    let mut res = res;
    if res.is_ok() {
        for (p, content) in &decoys {
            match std::fs::read_to_string(p) {
                Ok(now) if &now == content => {}
                Ok(_) => res = Err(format!("--export model.json modified the existing neighbouring file {}", p.display())),
                Err(_) => res = Err(format!("--export model.json removed the existing neighbouring file {}", p.display())),
            }
        }
    }
    cleanup(&[&input]);
    let _ = std::fs::remove_dir_all(&dir);
    let imported = res?;
    st.count("process_runs", if imported { 4 } else { 2 });
    st.label(if c.existing.is_some() { "export:file-exists" } else { "export:fresh+import" });
    st.nontrivial(stable_hash(&(&c.adf.acs, &c.adf.labels, c.sort, &c.existing, &c.flags)), || {
        json!({"file": text, "existing_export_content": c.existing, "flags": sem})
    });
    Ok(Outcome::Ok)
}
