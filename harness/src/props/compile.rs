//! C09: translation validation of the compilation to diagrams; C10: presentation invariance.

use crate::calls::{self, Abs, Call};
use crate::engine::*;
use crate::formula::F;
use crate::gen::{self, LabelClass, Layout};
use crate::oracle::{self, Interp, Tv};
use crate::props::sem::{build_native_like, case_hash, sort_strategy, Backend, SemCase};
use crate::sut::{self, Sort};
use adf_bdd::adf::Adf;
use proptest::prelude::*;
use serde::{Deserialize, Serialize};
use serde_json::json;

// ------------------------------------------------------------------------------------------
// C09

/// deterministic filler bits for variables outside the support
fn filler(seed: u64, i: usize) -> bool {
    (stable_hash(&(seed, i as u64)) & 1) == 1
}

/// validate one statement's diagram against its formula
fn validate_statement(
    a: &Adf,
    li: usize,
    f: &F,
    perm: &[usize],
    inv: &[usize],
    what: &str,
) -> Result<u64, String> {
    let n = perm.len();
    let sup: Vec<usize> = f.support().into_iter().collect(); // logical indices
    let t = a.ac[li];
    // dependencies must lie inside the formula's syntactic support
    for v in a.bdd.var_dependencies(t) {
        if v.value() >= n || !sup.contains(&perm[v.value()]) {
            return Err(format!(
                "{what}: diagram of statement #{li} depends on library variable {} which the formula does not mention",
                v.value()
            ));
        }
    }
    let mut checked = 0u64;
    let mut check = |assign: &dyn Fn(usize) -> bool, tag: &str| -> Result<(), String> {
        // assign: logical index -> bool
        let want = f.eval(assign);
        let got = sut::walk(&a.bdd, t, &|lv| lv < n && assign(perm[lv]))?;
        checked += 1;
        if want != got {
            let on: Vec<usize> = (0..n).filter(|&i| assign(i)).collect();
            return Err(format!(
                "{what}: statement #{li} (logical {}): diagram gives {got}, formula {want} under the assignment with true statements {on:?} [{tag}]",
                perm[li]
            ));
        }
        Ok(())
    };
    let _ = inv;
    if sup.len() <= 14 {
        for bits in 0..(1u64 << sup.len()) {
            let seed = bits.wrapping_mul(0x9e3779b97f4a7c15) ^ li as u64;
            check(
                &|i| match sup.iter().position(|&s| s == i) {
                    Some(j) => (bits >> j) & 1 == 1,
                    None => filler(seed, i),
                },
                "exhaustive over support",
            )?;
        }
    } else {
        for s in 0..4000u64 {
            let seed = stable_hash(&(s, li as u64, 0xc09u64));
            // uniform sample, plus samples biased to mostly-true / mostly-false
            let bias = s % 4;
            check(
                &|i| {
                    let h = stable_hash(&(seed, i as u64));
                    match bias {
                        0 | 1 => h & 1 == 1,
                        2 => h % 8 != 0,
                        _ => h % 8 == 0,
                    }
                },
                "sampled",
            )?;
        }
    }
    Ok(checked)
}

fn c09_check(c: &SemCase, st: &mut Stats) -> CheckResult {
    let text = c.adf.text();
    let n = c.adf.n();
    let res = sut::with_parser(&text, c.sort, |p| -> Result<(u64, usize), String> {
        let names: Vec<String> = p.var_container().names().read().unwrap().clone();
        let perm = sut::perm_from_names(&names, &c.adf.labels)?;
        let mut inv = vec![0usize; n];
        for (li, &lo) in perm.iter().enumerate() {
            inv[lo] = li;
        }
        let mut obligations = 0u64;
        let mut max_nodes = 0usize;
        for (nm, b) in [
            ("from_parser", Backend::Native),
            ("hybrid_step_opt(false)", Backend::HybridNoPre),
            ("from_biodivine", Backend::FromBio),
        ] {
            let a = build_native_like(p, b);
            if a.ac.len() != n {
                return Err(format!("{nm}: {} acceptance handles for {n} statements", a.ac.len()));
            }
            for li in 0..n {
                obligations += validate_statement(&a, li, &c.adf.acs[perm[li]], &perm, &inv, nm)?;
            }
            max_nodes = max_nodes.max(a.bdd.nodes.len());
        }
        // pre-grounded import: the function with the grounded values substituted
        let (g, _) = oracle::grounded_local(&c.adf.acs);
        let a = build_native_like(p, Backend::HybridPre);
        for li in 0..n {
            let lo = perm[li];
            let t = a.ac[li];
            match g[lo] {
                Tv::T | Tv::F => {
                    if sut::tv(t) != g[lo] {
                        return Err(format!(
                            "hybrid_step(): statement #{li} is decided {:?} by grounding but its handle is {}",
                            g[lo],
                            t.value()
                        ));
                    }
                    obligations += 1;
                }
                Tv::U => {
                    let f = c.adf.acs[lo].subst(&|i| match g[i] {
                        Tv::T => Some(true),
                        Tv::F => Some(false),
                        Tv::U => None,
                    });
                    obligations += validate_statement(&a, li, &f, &perm, &inv, "hybrid_step() (pre-grounded)")?;
                }
            }
        }
        max_nodes = max_nodes.max(a.bdd.nodes.len());
        Ok((obligations, max_nodes))
    });
    let (obl, nodes) = match res {
        Err(e) => return Err(format!("well-formed input rejected: {e}")),
        Ok(Err(e)) => return Err(e),
        Ok(Ok(x)) => x,
    };
    st.count("programs", 1);
    st.count("obligations_checked", obl);
    st.label(&format!("statements<={}", n.next_power_of_two()));
    let asym = c.adf.acs.iter().any(|f| f.has_asym());
    let maxsup = c.adf.acs.iter().map(|f| f.support().len()).max().unwrap_or(0);
    if maxsup > 14 {
        st.label("support>14:sampled");
    }
    if (n >= 10 || nodes >= 50) && asym {
        st.nontrivial(case_hash(c), || {
            let t = text.chars().take(600).collect::<String>();
            json!({"statements": n, "nodes": nodes, "max_support": maxsup, "text_prefix": t})
        });
    }
    Ok(Outcome::Ok)
}

/// A grammar-valid text in which one statement has an acceptance condition but is never declared is
/// no ADF. The library may refuse it (it panics today); if it does return an object, every declared
/// statement must still carry exactly the condition written for it.
fn c09_undeclared(c: &SemCase, st: &mut Stats) -> CheckResult {
    let n = c.adf.n();
    let (text, decl) = gen::render(&c.adf.acs, &c.adf.labels, &c.adf.layout);
    // a victim no other condition mentions
    let Some(&victim) = decl.iter().find(|&&v| (0..n).all(|s| s == v || !c.adf.acs[s].support().contains(&v))) else {
        st.label("undeclared:not-applicable");
        return Ok(Outcome::Ok);
    };
    let fact = format!("s({}).", gen::quote(&c.adf.labels[victim]));
    let Some(pos) = text.find(&fact) else { return Ok(Outcome::Ok) };
    let cut = format!("{}{}", &text[..pos], &text[pos + fact.len()..]);
    let cut = cut.trim_start();
    if cut.is_empty() || n < 2 {
        return Ok(Outcome::Ok);
    }
    let parser = adf_bdd::parser::AdfParser::default();
    if parser.parse()(cut).is_err() {
        return Ok(Outcome::Ok);
    }
    let built = catch(|| (Adf::from_parser(&parser), adf_bdd::adfbiodivine::Adf::from_parser(&parser).hybrid_step_opt(false)));
    match built {
        Err(_) => {
            st.label("undeclared:refused");
        }
        Ok((native, bridged)) => {
            st.label("undeclared:object-returned");
            for (what, a) in [("Adf::from_parser", &native), ("biodivine bridge", &bridged)] {
                let names = sut::names_of(a);
                for (li, nm) in names.iter().enumerate() {
                    let s = c.adf.labels.iter().position(|l| l == nm).ok_or("unknown name")?;
                    let want = &c.adf.acs[s];
                    let sup: Vec<usize> = want.support().into_iter().collect();
                    for bits in 0..(1u64 << sup.len().min(12)) {
                        let val = |idx: usize| sup.iter().position(|&x| x == idx).map(|j| (bits >> j) & 1 == 1).unwrap_or(false);
                        let by_lib = |lv: usize| lv < names.len() && val(c.adf.labels.iter().position(|l| l == &names[lv]).unwrap());
                        if sut::walk(&a.bdd, a.ac[li], &by_lib)? != want.eval(&val) {
                            return Err(format!(
                                "{what} accepted a text with an undeclared statement ({:?}) and attached another condition to the declared statement {nm:?} than the one written for it",
                                c.adf.labels[victim]
                            ));
                        }
                    }
                }
            }
        }
    }
    st.count("programs", 1);
    st.nontrivial(case_hash(c), || json!({"text_without_declaration": cut.chars().take(300).collect::<String>(), "undeclared": c.adf.labels[victim]}));
    Ok(Outcome::Ok)
}

/// Wide ADFs (65..100 statements) with one or two conditions that are long chains over all statements, joined by every
/// connective: diagrams with more variables than a machine word has bits, up to 2^99 paths, children of very different depth.
#[derive(Clone, Debug, Serialize, Deserialize, Hash)]
pub struct ChainCase {
    pub n: u8,
    /// per position: connective (0 and, 1 or, 2 xor, 3 iff, 4 imp, 5 imp reversed), polarity
    pub spec: Vec<(u8, bool)>,
    /// which connectives may occur (bit mask over the six): pure xor / pure and chains are the extreme shapes
    pub allowed: u8,
    pub second: bool,
}

fn chain_case() -> BoxedStrategy<ChainCase> {
    (65u8..=100, proptest::collection::vec((0u8..6, any::<bool>()), 100), prop_oneof![Just(0b000100u8), Just(0b001000u8), Just(0b000001u8), Just(0b001100u8), 1u8..64, 1u8..64], any::<bool>())
        .prop_map(|(n, spec, allowed, second)| ChainCase { n, spec, allowed, second })
        .boxed()
}

fn c09_chains(c: &ChainCase, st: &mut Stats) -> CheckResult {
    let n = c.n as usize;
    let allowed: Vec<u8> = (0u8..6).filter(|b| c.allowed >> b & 1 == 1).collect();
    let chain = |offset: usize| -> F {
        let mut acc: Option<F> = None;
        for i in (0..n).rev() {
            let (con, pol) = c.spec[(i + offset) % c.spec.len()];
            let lit = if pol { F::Atom(i) } else { F::not(F::Atom(i)) };
            acc = Some(match acc {
                None => lit,
                Some(rest) => match allowed[con as usize % allowed.len()] {
                    0 => F::and(lit, rest),
                    1 => F::or(lit, rest),
                    2 => F::xor(lit, rest),
                    3 => F::iff(lit, rest),
                    4 => F::imp(lit, rest),
                    _ => F::imp(rest, lit),
                },
            });
        }
        acc.unwrap()
    };
    let mut acs: Vec<F> = (0..n).map(|i| if i % 3 == 0 { F::Top } else if i % 3 == 1 { F::not(F::Atom(i - 1)) } else { F::Atom(i) }).collect();
    acs[0] = chain(0);
    if c.second {
        acs[n / 2] = chain(7);
    }
    let adf = gen::AdfCase::simple(acs);
    let text = adf.text();
    let res = sut::with_parser_opt(&text, sut::Sort::None, false, |p| -> Result<(u64, usize), String> {
        let perm: Vec<usize> = (0..n).collect();
        let mut obligations = 0;
        let mut nodes = 0;
        for (nm, b) in [("from_parser", Backend::Native), ("hybrid_step_opt(false)", Backend::HybridNoPre), ("from_biodivine", Backend::FromBio)] {
            let a = build_native_like(p, b);
            if a.ac.len() != n {
                return Err(format!("{nm}: {} acceptance handles for {n} statements", a.ac.len()));
            }
            for li in [0, n / 2, 1, 2, n - 1] {
                obligations += validate_statement(&a, li, &adf.acs[li], &perm, &perm, nm)?;
            }
            nodes = nodes.max(a.bdd.nodes.len());
        }
        Ok((obligations, nodes))
    });
    let (obl, nodes) = match res {
        Err(e) => return Err(format!("well-formed input rejected: {e}")),
        Ok(Err(e)) => return Err(e),
        Ok(Ok(x)) => x,
    };
    st.count("programs", 1);
    st.count("obligations_checked", obl);
    st.label(if allowed.iter().any(|a| *a == 2 || *a == 3) { "chain:with-xor/iff (exponentially many paths)" } else { "chain:and/or/imp only" });
    if nodes >= 100 {
        st.nontrivial(stable_hash(c), || json!({"statements": n, "nodes": nodes, "connectives": allowed}));
    }
    Ok(Outcome::Ok)
}


/// ADFs whose compilation makes the node table cross 2^15 / 2^16 / 2^17 entries before the remaining conditions are
/// compiled: one condition is (x0 & y0) | ... | (x_{p-1} & y_{p-1}) with all x before all y in the variable order.
#[derive(Clone, Debug, Serialize, Deserialize, Hash)]
pub struct BigCase {
    pub p: u8,
    /// statement that carries the big condition
    pub at: u8,
    pub xor_variant: bool,
    pub others: Vec<F>,
}

fn big_case() -> BoxedStrategy<BigCase> {
    (13u8..=16, 0u8..8, any::<bool>(), proptest::collection::vec(gen::formula(8, 4), 10))
        .prop_map(|(p, at, xor_variant, others)| BigCase { p, at, xor_variant, others })
        .boxed()
}

fn c09_big(c: &BigCase, st: &mut Stats) -> CheckResult {
    let p = c.p as usize;
    let n = 2 * p + 4;
    let mut big: Option<F> = None;
    for i in (0..p).rev() {
        let pair = if c.xor_variant && i % 5 == 0 { F::xor(F::Atom(i), F::Atom(p + i)) } else { F::and(F::Atom(i), F::Atom(p + i)) };
        big = Some(match big {
            None => pair,
            Some(rest) => F::or(pair, rest),
        });
    }
    // the other conditions: small formulas over statements spread over the whole order
    let mut acs: Vec<F> = (0..n)
        .map(|i| {
            let f = &c.others[i % c.others.len()];
            f.map_atoms(&|a| (a * 5 + i * 3) % n)
        })
        .collect();
    let at = c.at as usize % n.min(8);
    acs[at] = big.unwrap();
    let adf = gen::AdfCase::simple(acs);
    let text = adf.text();
    let res = sut::with_parser_opt(&text, sut::Sort::None, false, |pr| -> Result<(u64, usize), String> {
        let perm: Vec<usize> = (0..n).collect();
        let mut obligations = 0;
        let mut nodes = 0;
        for (nm, b) in [("from_parser", Backend::Native), ("hybrid_step_opt(false)", Backend::HybridNoPre)] {
            if b != Backend::Native && c.p > 14 {
                continue;
            }
            let a = build_native_like(pr, b);
            if a.ac.len() != n {
                return Err(format!("{nm}: {} acceptance handles for {n} statements", a.ac.len()));
            }
            for li in 0..n {
                obligations += validate_statement(&a, li, &adf.acs[li], &perm, &perm, nm)?;
            }
            nodes = nodes.max(a.bdd.nodes.len());
        }
        Ok((obligations, nodes))
    });
    let (obl, nodes) = match res {
        Err(e) => return Err(format!("well-formed input rejected: {e}")),
        Ok(Err(e)) => return Err(e),
        Ok(Ok(x)) => x,
    };
    st.count("programs", 1);
    st.count("obligations_checked", obl);
    st.label(if nodes > 1 << 16 { "nodes>2^16" } else if nodes > 1 << 15 { "nodes>2^15" } else { "nodes<=2^15" });
    if nodes > 1 << 15 {
        st.nontrivial(stable_hash(c), || json!({"statements": n, "nodes": nodes, "big_condition_at": at}));
    }
    Ok(Outcome::Ok)
}

pub fn c09(tier: Tier) -> PropSpec {
    PropSpec {
        id: "C09",
        level: "translation_validation",
        rule: "each generated ADF is a program; each compiled acceptance condition is validated individually against its formula: \
               walk(ac[s], a) == eval(phi_s, a) for ALL assignments of support(phi_s) when <= 14 variables (other variables filled \
               pseudo-randomly), else 4000 sampled assignments; var_dependencies within the syntactic support; on from_parser, \
               hybrid_step_opt(false), from_biodivine and (with grounded values substituted, decided statements constant) hybrid_step(). \
               Small ADFs (n<=7) and large ones (10..60 statements, depth <= 9, supports <= 12, a few <= 20; one sixth 61..110 statements). Non-trivial: \
               ADF with >= 10 statements or >= 50 nodes that contains an implication (polarity-asymmetric connective). \
               Part big-store: one condition needs 2^13..2^16 pairs-function nodes (node table beyond 2^15 / 2^16 / 2^17 entries) and all other conditions are compiled around it. programs = ADFs, disagreements_checked = (statement, assignment) pairs compared.",
        assumptions: vec![
            "formula.rs evaluator; sut::walk; supports > 14 are sampled, not exhausted",
            "oracle::grounded_local for the pre-grounded import",
        ],
        exhaustive: false,
        parts: vec![
            Part::new(
                "small",
                tier.pick(20000, 200000),
                || crate::props::sem::sem_case(1, 7),
                c09_check,
            ),
            Part::new(
                "large",
                tier.pick(1500, 15000),
                || {
                    (
                        gen::adf_case(
                            prop_oneof![
                                4 => gen::adf_large(10, 60, 10, 8),
                                1 => gen::adf_large(10, 30, 18, 9),
                                1 => gen::adf_large(61, 110, 6, 5),
                            ]
                            .boxed(),
                            LabelClass::Alnum,
                        ),
                        sort_strategy(),
                    )
                        .prop_map(|(adf, sort)| SemCase { adf, sort })
                        .boxed()
                },
                c09_check,
            ),
            Part::new(
                "wide",
                tier.pick(120, 1500),
                || {
                    (
                        gen::adf_case(
                            prop_oneof![2 => gen::adf_large(250, 262, 5, 4), 1 => gen::adf_large(126, 132, 6, 4), 1 => gen::adf_large(510, 520, 4, 3)].boxed(),
                            LabelClass::Alnum,
                        ),
                        sort_strategy(),
                    )
                        .prop_map(|(adf, sort)| SemCase { adf, sort })
                        .boxed()
                },
                c09_check,
            ),
            Part::new("undeclared", tier.pick(4000, 40000), || crate::props::sem::sem_case(2, 6), c09_undeclared),
            Part::with_shrink("chains", tier.pick(800, 8000), 200, chain_case, c09_chains),
            Part::with_shrink("big-store", tier.pick(48, 480), 40, big_case, c09_big),
        ],
    }
}

// ------------------------------------------------------------------------------------------
// C10

#[derive(Clone, Debug, Serialize, Deserialize)]
pub struct MetaCase {
    pub acs: Vec<F>,
    pub base_labels: Vec<String>,
    pub base_layout: Layout,
    pub base_sort: Sort,
    pub new_labels: Vec<String>,
    pub new_layout: Layout,
    pub new_sort: Sort,
    pub backend: u8,
}

/// all answers of one presentation, in logical order
fn answers(
    acs: &[F],
    labels: &[String],
    layout: &Layout,
    sort: Sort,
    backend: Backend,
    reuse_parser: bool,
) -> Result<(Vec<(String, Vec<Interp>)>, Vec<String>, String), String> {
    let (text, _) = gen::render(acs, labels, layout);
    let r = sut::with_parser_opt(&text, sort, reuse_parser, |p| -> Result<_, String> {
        let names: Vec<String> = p.var_container().names().read().unwrap().clone();
        let perm = sut::perm_from_names(&names, labels)?;
        let mut a = build_native_like(p, backend);
        let g = a.grounded();
        let und = g.iter().filter(|t| !t.is_truth_value()).count();
        let printed = format!("{}", a.print_interpretation(&g));
        // the printed line names every statement once with its value, via both printing entry points
        let printed2 = format!("{}", a.print_dictionary().print_interpretation(&g));
        if printed2 != printed {
            return Err(format!("print_dictionary().print_interpretation prints {printed2:?}, Adf::print_interpretation {printed:?}"));
        }
        let toks = crate::props::cli::parse_line_known(printed.trim_end_matches('\n'), labels)?;
        if toks.len() != names.len() {
            return Err(format!("print_interpretation lists {} statements of {}", toks.len(), names.len()));
        }
        for (pos, (nm, v)) in toks.iter().enumerate() {
            if nm != &names[pos] || *v != sut::tv(g[pos]) {
                return Err(format!(
                    "print_interpretation prints {}({nm}) at position {pos}, the interpretation holds {:?} for {:?}",
                    v.ch(),
                    sut::tv(g[pos]),
                    names[pos]
                ));
            }
        }
        let mut list: Vec<Call> = vec![Call::Grounded];
        if und <= 16 {
            list.extend([Call::StableNg(0), Call::StableNg(1), Call::TwoValNg(2)]);
        }
        if und <= 9 {
            list.push(Call::Complete);
        }
        if und <= 14 {
            list.push(Call::CountA);
            list.push(Call::CountB);
            list.push(Call::Stable);
            list.push(Call::StablePrefilter);
        }
        let mut out = Vec::new();
        // (wide ADFs under arbitrary orders: the one diagram for all conditions can be exponential, not asked there)
        if und <= 14 && names.len() <= 30 {
            // the single-formula rewriting variants (prepared from the parser and internal)
            let bio_rw = adf_bdd::adfbiodivine::Adf::from_parser_with_stm_rewrite(p);
            let bio = adf_bdd::adfbiodivine::Adf::from_parser(p);
            for (nm, v) in [
                ("stable_bdd_representation(parser rewriting)", a.stable_bdd_representation(&bio_rw)),
                ("stable_bdd_representation(internal rewriting)", a.stable_bdd_representation(&bio)),
                ("biodivine.stable_bdd_representation(parser rewriting)", bio_rw.stable_bdd_representation()),
            ] {
                let mut l: Vec<Interp> = v.iter().map(|i| sut::to_logical(&perm, &sut::abs(i))).collect::<Result<_, _>>()?;
                l.sort();
                out.push((nm.to_string(), l));
            }
        }
        for call in list {
            if let Abs::Interps(v) = calls::abstract_raw(&calls::exec(&mut a, &call)?, false) {
                let mut l: Vec<Interp> = v.iter().map(|i| sut::to_logical(&perm, i)).collect::<Result<_, _>>()?;
                l.sort();
                out.push((format!("{call:?}"), l));
            }
        }
        Ok((out, names, printed))
    });
    match r {
        Err(e) => Err(format!("well-formed input rejected: {e}\n{text}")),
        Ok(x) => x,
    }
}

fn c10_check(c: &MetaCase, st: &mut Stats) -> CheckResult {
    let be = [Backend::Native, Backend::HybridPre, Backend::HybridNoPre][(c.backend % 3) as usize];
    let (base, _, _) = answers(&c.acs, &c.base_labels, &c.base_layout, c.base_sort, be, false)?;
    // the second presentation re-uses its parser object: ADFs are built before AND after the re-sort
    let (new, names, printed) = answers(&c.acs, &c.new_labels, &c.new_layout, c.new_sort, be, c.backend >= 3)?;
    // answers that were computed on both sides must agree (the lists can differ in which of the
    // expensive semantics were affordable only if the grounded interpretations differ - also a violation)
    if base.len() != new.len() {
        return Err("the two presentations leave a different number of statements undecided in grounded".into());
    }
    let mut multi = false;
    for ((ca, a), (cb, b)) in base.iter().zip(new.iter()) {
        if ca != cb {
            return Err("internal: call lists differ".into());
        }
        if a != b {
            return Err(format!(
                "{ca}: presentation 1 (sort {:?}) gives {} but presentation 2 (sort {:?}, renamed/reordered) gives {} as label->value maps",
                c.base_sort,
                oracle::show_set(a),
                c.new_sort,
                oracle::show_set(b)
            ));
        }
        multi |= a.len() >= 2;
    }
    // small instances: also the definition
    if c.acs.len() <= 7 {
        for (call, a) in &base {
            let exp = match call.as_str() {
                "Grounded" => calls::expected_logical(&c.acs, &Call::Grounded),
                "Complete" => calls::expected_logical(&c.acs, &Call::Complete),
                "TwoValNg(2)" => calls::expected_logical(&c.acs, &Call::TwoValNg(2)),
                _ => calls::expected_logical(&c.acs, &Call::Stable),
            };
            if let Some(e) = exp {
                if &e != a {
                    return Err(format!("{call}: {} but the definition gives {}", oracle::show_set(a), oracle::show_set(&e)));
                }
            }
        }
    }
    // lexicographic sorting: byte-wise order of names, printed in that order
    if c.new_sort == Sort::Lexi {
        let mut sorted = c.new_labels.clone();
        sorted.sort();
        if names != sorted {
            return Err(format!("--lx / varsort_lexi: names {names:?} are not in byte-wise order {sorted:?}"));
        }
        let mut pos = 0usize;
        for nm in &sorted {
            // labels in this property never contain ')' or blanks, so tokens can be located
            let tok = format!("({nm}) ");
            match printed[pos..].find(&tok) {
                Some(p) => pos += p + tok.len(),
                None => {
                    return Err(format!(
                        "print_interpretation does not list the statements in byte-wise label order: {printed:?}"
                    ))
                }
            }
        }
    }
    let order_changed = c.base_sort != c.new_sort || c.base_layout != c.new_layout;
    st.label(&format!("sort:{:?}->{:?}", c.base_sort, c.new_sort));
    if c.acs.len() > 7 {
        st.label("beyond_brute_force");
    }
    if order_changed && multi {
        st.nontrivial(
            stable_hash(&(&c.acs, &c.base_labels, &c.new_labels, &c.base_layout, &c.new_layout, c.base_sort, c.new_sort)),
            || {
                json!({"presentation_1": gen::render(&c.acs, &c.base_labels, &c.base_layout).0.chars().take(400).collect::<String>(),
                       "sort_1": format!("{:?}", c.base_sort),
                       "presentation_2": gen::render(&c.acs, &c.new_labels, &c.new_layout).0.chars().take(400).collect::<String>(),
                       "sort_2": format!("{:?}", c.new_sort)})
            },
        );
    }
    Ok(Outcome::Ok)
}

/// labels for C10: no blanks / brackets (so printed lines can be tokenised), biodivine-safe
fn c10_labels(n: usize) -> BoxedStrategy<Vec<String>> {
    gen::labels(n, LabelClass::Quoted)
        .prop_map(|v| {
            v.into_iter()
                .enumerate()
                .map(|(i, l)| {
                    if l.chars().any(|c| c.is_whitespace() || c == ')' || c == '(') {
                        format!("r{i}")
                    } else {
                        l
                    }
                })
                .collect::<Vec<_>>()
        })
        .prop_filter("distinct", |v| {
            let mut s = v.clone();
            s.sort();
            s.dedup();
            s.len() == v.len()
        })
        .boxed()
}

fn meta_case(adfs: BoxedStrategy<Vec<F>>) -> BoxedStrategy<MetaCase> {
    adfs.prop_flat_map(|acs| {
        let n = acs.len();
        (
            Just(acs),
            c10_labels(n),
            gen::layout(n),
            sort_strategy(),
            c10_labels(n),
            gen::layout(n),
            prop_oneof![Just(Sort::None), Just(Sort::Lexi), Just(Sort::Alphanum)],
            0u8..6,
        )
    })
    .prop_map(
        |(acs, base_labels, base_layout, base_sort, new_labels, new_layout, new_sort, backend)| MetaCase {
            acs,
            base_labels,
            base_layout,
            base_sort,
            new_labels,
            new_layout,
            new_sort,
            backend,
        },
    )
    .boxed()
}

pub fn c10(tier: Tier) -> PropSpec {
    PropSpec {
        id: "C10",
        level: "exploration",
        rule: "metamorphic: one generated ADF in two presentations (independent injective labellings from all label classes without blanks/ \
               brackets, independent fact orders incl. ac-before-s, independent whitespace layouts, independent sort modes none/lexi/ \
               alphanum) on native or hybrid(+/-pre); grounded, complete (<= 9 undecided), stable via stable/prefilter/counting a,b \
               (<= 14 undecided) and two nogood heuristics and two-valued via nogood channel (<= 16 undecided) are compared as sets of label->value maps; \
               for n<=7 also against the definition; with lexi sort the names are byte-wise sorted and print_interpretation lists them \
               in that order. Sizes: n<=7 and 8..24 statements with bounded supports (no oracle needed). Non-trivial: order or sort \
               differs between the presentations and some answer has >= 2 models.",
        assumptions: vec!["labels avoid blanks and brackets so printed lines can be tokenised; biodivine-hostile labels excluded (K1)"],
        exhaustive: false,
        parts: vec![
            Part::new("small", tier.pick(12000, 120000), || meta_case(gen::adf_small(1, 7)), c10_check),
            Part::new(
                "medium",
                tier.pick(800, 8000),
                || meta_case(gen::adf_large(8, 24, 4, 3)),
                c10_check,
            ),
            // the observation points named in the property: the CLI with --lx / --an (all three modes) ...
            // 66..130 statements (a small cyclic core, a few statements computed from it, the rest decided by grounding)
            // under two independent presentations: which statements sit beyond position 64 / 128 depends on the presentation
            Part::new("wide", tier.pick(400, 4000), || meta_case(gen::adf_stratified(66, 130, 4)), c10_check),
            crate::props::cli::padded_cli_part("cli-padded", tier.pick(90, 900)),
            crate::props::cli::bignum_cli_part("cli-bignum", tier.pick(90, 900)),
            crate::props::cli::sem_cli_part("cli-sort", &[crate::props::cli::Flag::Grd, crate::props::cli::Flag::Com, crate::props::cli::Flag::Stm], tier.pick(150, 1500)),
            // ... and sorting options combined with --export / --import
            Part::with_shrink(
                "cli-import-sort",
                tier.pick(100, 1000),
                200,
                crate::props::cli::cli_export_strategy,
                crate::props::cli::cli_export_check,
            ),
        ],
    }
}

