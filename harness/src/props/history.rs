//! C11: cache transparency / determinism across call histories; C14: persistence round trips.

use crate::bddmodel::structural_invariants;
use crate::calls::{self, Abs, Call, Raw};
use crate::engine::*;
use crate::props::sem::{build_native_like, case_hash, sem_case, Backend, SemCase};
use crate::sut::{self, Sort};
use adf_bdd::adf::Adf;
use adf_bdd::datatypes::adf::VarContainer;
use adf_bdd::datatypes::{BddNode, Term, Var};
use adf_bdd::obdd::Bdd;
use proptest::prelude::*;
use serde::{Deserialize, Serialize};
use serde_json::json;
use std::collections::HashMap;
use std::sync::{Arc, RwLock};

#[derive(Clone, Debug, Serialize, Deserialize)]
pub struct HistCase {
    pub sem: SemCase,
    pub backend: u8,
    pub calls: Vec<Call>,
}

fn backend_of(b: u8) -> Backend {
    [Backend::Native, Backend::HybridPre, Backend::HybridNoPre, Backend::FromBio][(b % 4) as usize]
}

fn ac_tables(a: &Adf) -> Result<Vec<Vec<u64>>, String> {
    let n = a.ac.len();
    a.ac.iter().map(|t| sut::table_of(&a.bdd, *t, n)).collect()
}

fn c11_check(c: &HistCase, st: &mut Stats) -> CheckResult {
    let text = c.sem.adf.text();
    let be = backend_of(c.backend);
    let res = sut::with_parser(&text, c.sem.sort, |p| -> Result<(bool, usize), String> {
        let names: Vec<String> = p.var_container().names().read().unwrap().clone();
        let perm = sut::perm_from_names(&names, &c.sem.adf.labels)?;
        let mut hist = build_native_like(p, be);
        let mut twin = build_native_like(p, be);
        let tables0 = ac_tables(&hist)?;
        let mut grew_before_compare = false;
        let mut kinds = std::collections::BTreeSet::new();
        for (i, call) in c.calls.iter().enumerate() {
            let nodes_before = hist.bdd.nodes.len();
            let raw = calls::exec(&mut hist, call).map_err(|e| format!("call {i} {call:?}: {e}"))?;
            // (c) determinism: the twin object runs the same history
            let raw2 = calls::exec(&mut twin, call)?;
            if raw != raw2 {
                return Err(format!(
                    "determinism: call {i} {call:?} returned {raw:?} on one object and {raw2:?} on an identically built object with the same history"
                ));
            }
            // (a) history vs fresh object
            let mut fresh = build_native_like(p, be);
            let rawf = calls::exec(&mut fresh, call)?;
            // ordered comparison (T/F/u abstraction, order kept): the order of the answers only depends on
            // the diagrams' structure (and on the seed for Rand), never on handle numbers or caches
            let o_hist = calls::abstract_raw(&raw, false);
            let o_fresh = calls::abstract_raw(&rawf, false);
            if o_hist != o_fresh {
                return Err(format!(
                    "call {i} {call:?} after history {:?} answered {o_hist:?} (in this order) but a freshly built object answers {o_fresh:?}",
                    c.calls[..i].iter().map(|c| c.kind()).collect::<Vec<_>>()
                ));
            }
            let a_hist = calls::abstract_raw(&raw, true);
            let a_fresh = calls::abstract_raw(&rawf, true);
            if a_hist != a_fresh {
                return Err(format!(
                    "call {i} {call:?} after history {:?} answered {a_hist:?} but a freshly built object answers {a_fresh:?}",
                    c.calls[..i].iter().map(|c| c.kind()).collect::<Vec<_>>()
                ));
            }
            // and the definition
            if let (Some(exp), Abs::Interps(got)) = (calls::expected_logical(&c.sem.adf.acs, call), &a_hist) {
                let mut got_l: Vec<_> = got
                    .iter()
                    .map(|g| sut::to_logical(&perm, g))
                    .collect::<Result<_, _>>()?;
                got_l.sort();
                if got_l != exp {
                    return Err(format!(
                        "call {i} {call:?} after history {:?} answered {} but the definition gives {}",
                        c.calls[..i].iter().map(|c| c.kind()).collect::<Vec<_>>(),
                        crate::oracle::show_set(&got_l),
                        crate::oracle::show_set(&exp)
                    ));
                }
            }
            if let (Call::Complete, Raw::Interps(v)) = (call, &raw) {
                // grounded first, also late in a history
                let g = calls::exec(&mut fresh, &Call::Grounded)?;
                if let Raw::Interps(gv) = g {
                    let a = calls::abstract_raw(&Raw::Interps(vec![v[0].clone()]), false);
                    let b = calls::abstract_raw(&Raw::Interps(gv), false);
                    if a != b {
                        return Err(format!("call {i}: complete() does not list the grounded interpretation first"));
                    }
                }
            }
            // (b) the acceptance conditions still denote the same functions
            if ac_tables(&hist)? != tables0 {
                return Err(format!("call {i} {call:?} changed the function of an acceptance condition handle"));
            }
            if i > 0 && nodes_before > twin_initial_nodes(&fresh, call) {
                grew_before_compare = true;
            }
            kinds.insert(call.kind());
        }
        Ok((grew_before_compare, kinds.len()))
    });
    let (grew, kinds) = match res {
        Err(e) => return Err(format!("well-formed input rejected: {e}")),
        Ok(Err(e)) => return Err(e),
        Ok(Ok(x)) => x,
    };
    for call in &c.calls {
        st.label(&format!("call:{}", call.kind()));
    }
    if c.calls.len() >= 3 && kinds >= 2 && grew {
        st.nontrivial(stable_hash(&(case_hash(&c.sem), &c.calls, c.backend % 4)), || {
            json!({"text": text, "backend": format!("{be:?}"), "history": c.calls.iter().map(|c| format!("{c:?}")).collect::<Vec<_>>()})
        });
    }
    Ok(Outcome::Ok)
}

/// node count of a freshly built object (before the compared call ran it had only construction nodes)
fn twin_initial_nodes(fresh_after: &Adf, _call: &Call) -> usize {
    // conservative: a fresh object has at most as many nodes as it has now; the history object is
    // "grown" if it had more nodes than the fresh one has even after executing the call
    fresh_after.bdd.nodes.len()
}

/// A store that received its nodes over the channel and was repaired with fix_import answers like the store that
/// built the nodes itself (the answers of an object do not depend on how it got into its state).
fn c11_received(prog: &crate::bddmodel::Program, st: &mut Stats) -> CheckResult {
    use crate::bddmodel::Shadow;
    use adf_bdd::obdd::Bdd;
    let (s, r) = crossbeam_channel::unbounded();
    let mut sh = Shadow::with_bdd(prog.k as usize, Bdd::with_sender(s)).with_spread(prog.spread);
    for (i, op) in prog.ops.iter().enumerate() {
        sh.step(op).map_err(|e| format!("producer step {i}: {e}"))?;
    }
    let mut mirror = Bdd::with_receiver(r);
    let _ = mirror.recv(Term(sh.bdd.nodes.len() + 1));
    if mirror.nodes != sh.bdd.nodes {
        return Err("the receiver's node table differs from the producer's after taking everything".into());
    }
    mirror.fix_import();
    let handles: Vec<Term> = sh.issued.iter().map(|(h, _, _)| *h).collect();
    let vars: Vec<usize> = sh.vm.clone();
    for h in &handles {
        if sh.bdd.var_dependencies(*h) != mirror.var_dependencies(*h) {
            return Err(format!("var_dependencies({}) differs between the producing store and the repaired receiver", h.value()));
        }
        for memo in [false, true] {
            if sh.bdd.paths(*h, memo) != mirror.paths(*h, memo) {
                return Err(format!("paths({}, {memo}) differs between the producing store and the repaired receiver", h.value()));
            }
        }
        if sh.bdd.models(*h, false) != mirror.models(*h, false) {
            return Err(format!("models({}, false) differs between the producing store and the repaired receiver", h.value()));
        }
        if sh.bdd.max_depth(*h) != mirror.max_depth(*h) {
            return Err(format!("max_depth({}) differs between the producing store and the repaired receiver", h.value()));
        }
    }
    let mut restricts = 0usize;
    for h in handles.iter().take(12) {
        for v in &vars {
            for val in [false, true] {
                let a = sh.bdd.restrict(*h, adf_bdd::datatypes::Var(*v), val);
                let b = mirror.restrict(*h, adf_bdd::datatypes::Var(*v), val);
                if a != b {
                    return Err(format!(
                        "restrict({}, {v}, {val}) = {} on the producing store but {} on the repaired receiver (identical node tables before)",
                        h.value(),
                        a.value(),
                        b.value()
                    ));
                }
                restricts += 1;
            }
        }
    }
    if mirror.nodes != sh.bdd.nodes {
        return Err("after the same calls the node tables of producer and repaired receiver differ".into());
    }
    // the same operations once more on the receiver: same handles as the producer got
    let mut sh2 = Shadow::with_bdd(prog.k as usize, mirror).with_spread(prog.spread);
    for (i, op) in prog.ops.iter().enumerate() {
        sh2.step(op).map_err(|e| format!("repaired receiver used as a store, step {i}: {e}"))?;
    }
    let again: Vec<Term> = sh2.issued.iter().map(|(h, _, _)| *h).collect();
    if again != handles {
        return Err("the same operations return other handles on the repaired receiver than on the producer".into());
    }
    if sh.bdd.nodes.len() >= 6 && restricts >= 8 {
        st.nontrivial(stable_hash(prog), || json!({"k": prog.k, "ops": prog.ops.len(), "nodes": sh.bdd.nodes.len()}));
    }
    Ok(Outcome::Ok)
}


// ------------------------------------------------------------------------------------------
// C11, histories on one biodivine-backed object

#[derive(Clone, Debug, Serialize, Deserialize, Hash)]
pub enum BioCall {
    Grounded,
    Complete,
    Stable,
    StableRepr,
    /// `hybrid_step_opt(pre)` on the used object, then one call on the resulting native object
    Hybrid(bool, u8),
    /// `Adf::from_biodivine` on the used object, then one call
    FromBio(u8),
    /// `stable_bdd_representation(&self)` of a native object built from the same parser
    NativeRepr,
    /// print the grounded interpretation and the dictionary through the object's printers
    Print,
}

#[derive(Clone, Debug, Serialize, Deserialize)]
pub struct BioHistCase {
    pub sem: SemCase,
    pub rewrite: bool,
    pub calls: Vec<BioCall>,
}

const FOLLOW: [Call; 8] = [
    Call::Grounded,
    Call::Complete,
    Call::Stable,
    Call::StablePrefilter,
    Call::CountA,
    Call::CountB,
    Call::StableNg(1),
    Call::TwoValNg(0),
];

fn bio_exec(b: &adf_bdd::adfbiodivine::Adf, p: &adf_bdd::parser::AdfParser, call: &BioCall) -> Result<(Raw, Option<Call>, String), String> {
    let ri = |v: Vec<Vec<Term>>| Raw::Interps(v.into_iter().map(|i| i.into_iter().map(|t| t.value()).collect()).collect());
    Ok(match call {
        BioCall::Grounded => (ri(vec![b.grounded()]), Some(Call::Grounded), String::new()),
        BioCall::Complete => (ri(b.complete().collect()), Some(Call::Complete), String::new()),
        BioCall::Stable => (ri(b.stable().collect()), Some(Call::Stable), String::new()),
        BioCall::StableRepr => (ri(b.stable_bdd_representation()), Some(Call::Stable), String::new()),
        BioCall::Hybrid(pre, k) => {
            let mut a = b.hybrid_step_opt(*pre);
            let c = FOLLOW[*k as usize % FOLLOW.len()].clone();
            (calls::exec(&mut a, &c)?, Some(c), String::new())
        }
        BioCall::FromBio(k) => {
            let mut a = Adf::from_biodivine(b);
            let c = FOLLOW[*k as usize % FOLLOW.len()].clone();
            (calls::exec(&mut a, &c)?, Some(c), String::new())
        }
        BioCall::NativeRepr => {
            let mut a = Adf::from_parser(p);
            (ri(a.stable_bdd_representation(b)), Some(Call::Stable), String::new())
        }
        BioCall::Print => {
            let g = b.grounded();
            let txt = format!("{}", b.print_interpretation(&g));
            (ri(vec![g]), Some(Call::Grounded), txt)
        }
    })
}

fn c11_bio(c: &BioHistCase, st: &mut Stats) -> CheckResult {
    use adf_bdd::adfbiodivine::Adf as BdAdf;
    let text = c.sem.adf.text();
    let build = |p: &adf_bdd::parser::AdfParser| if c.rewrite { BdAdf::from_parser_with_stm_rewrite(p) } else { BdAdf::from_parser(p) };
    let res = sut::with_parser(&text, c.sem.sort, |p| -> Result<usize, String> {
        let names: Vec<String> = p.var_container().names().read().unwrap().clone();
        let perm = sut::perm_from_names(&names, &c.sem.adf.labels)?;
        let hist = build(p);
        let twin = build(p);
        let mut kinds = std::collections::HashSet::new();
        for (i, call) in c.calls.iter().enumerate() {
            let before = || c.calls[..i].iter().map(|c| format!("{c:?}")).collect::<Vec<_>>();
            let (raw, sem, txt) = bio_exec(&hist, p, call).map_err(|e| format!("call {i} {call:?}: {e}"))?;
            let (raw2, _, txt2) = bio_exec(&twin, p, call)?;
            if raw != raw2 || txt != txt2 {
                return Err(format!("determinism: call {i} {call:?} returned {raw:?} on one biodivine-backed object and {raw2:?} on an identically built one with the same history"));
            }
            let fresh = build(p);
            let (rawf, _, txtf) = bio_exec(&fresh, p, call)?;
            let o_hist = calls::abstract_raw(&raw, false);
            let o_fresh = calls::abstract_raw(&rawf, false);
            if o_hist != o_fresh || txt != txtf {
                return Err(format!(
                    "call {i} {call:?} on a biodivine-backed object after history {:?} answered {o_hist:?} {txt:?} (in this order) but a freshly built object answers {o_fresh:?} {txtf:?}",
                    before()
                ));
            }
            if let (Some(sc), Abs::Interps(got)) = (&sem, calls::abstract_raw(&raw, true)) {
                if let Some(exp) = calls::expected_logical(&c.sem.adf.acs, sc) {
                    let mut got_l: Vec<_> = got.iter().map(|g| sut::to_logical(&perm, g)).collect::<Result<_, _>>()?;
                    got_l.sort();
                    if got_l != exp {
                        return Err(format!(
                            "call {i} {call:?} on a biodivine-backed object after history {:?} answered {} but the definition gives {}",
                            before(),
                            crate::oracle::show_set(&got_l),
                            crate::oracle::show_set(&exp)
                        ));
                    }
                }
            }
            kinds.insert(std::mem::discriminant(call));
        }
        Ok(kinds.len())
    });
    let kinds = match res {
        Err(e) => return Err(format!("well-formed input rejected: {e}")),
        Ok(Err(e)) => return Err(e),
        Ok(Ok(x)) => x,
    };
    for call in &c.calls {
        let s = format!("{call:?}");
        st.label(&format!("biocall:{}", s.split('(').next().unwrap_or("")));
    }
    if c.calls.len() >= 3 && kinds >= 2 {
        st.nontrivial(stable_hash(&(case_hash(&c.sem), &c.calls, c.rewrite)), || {
            json!({"text": text, "rewrite": c.rewrite, "history": c.calls.iter().map(|c| format!("{c:?}")).collect::<Vec<_>>()})
        });
    }
    Ok(Outcome::Ok)
}

fn bio_call_strategy() -> BoxedStrategy<BioCall> {
    prop_oneof![
        3 => Just(BioCall::Grounded),
        3 => Just(BioCall::Complete),
        3 => Just(BioCall::Stable),
        3 => Just(BioCall::StableRepr),
        3 => (any::<bool>(), 0u8..8).prop_map(|(p, k)| BioCall::Hybrid(p, k)),
        2 => (0u8..8).prop_map(BioCall::FromBio),
        2 => Just(BioCall::NativeRepr),
        1 => Just(BioCall::Print),
    ]
    .boxed()
}

pub fn c11(tier: Tier) -> PropSpec {
    PropSpec {
        id: "C11",
        level: "exploration",
        rule: "generated ADF (n<=6) x back-end x history of 1..12 public API calls (grounded, complete, stable, prefilter, counting a/b, \
               stable_nogood with the three deterministic heuristics, two_val channel, seed+Rand, formulacounts(naive), facet_count, path/ \
               depth/dependency queries, extra formulas built on the shared diagram from the acceptance handles). After every call: \
               (a) abstract answer (T/F/u multiset, reduced counts, truth tables) == same call on a freshly built object == definitional \
               oracle; (b) every acceptance handle still denotes its function; (c) an identically built twin object running the same \
               history returns identical RAW answers (handles, order). Memoised model counts are never queried (documented exception in \
               the default build). Non-trivial: >= 3 calls of >= 2 kinds where the object had already grown beyond a fresh object's \
               node table before a compared call.",
        assumptions: vec!["oracle.rs; sut::walk"],
        exhaustive: false,
        parts: vec![Part::new(
            "histories",
            tier.pick(80000, 600000),
            || {
                (sem_case(1, 6), 0u8..4, proptest::collection::vec(calls::call_strategy(true), 1..12))
                    .prop_map(|(sem, backend, calls)| HistCase { sem, backend, calls })
                    .boxed()
            },
            c11_check,
        ),
        Part::new("received-store", tier.pick(15000, 150000), || crate::bddmodel::program(6, 30, false), c11_received),
        Part::new(
            "bio-histories",
            tier.pick(12000, 120000),
            || {
                (sem_case(1, 6), any::<bool>(), proptest::collection::vec(bio_call_strategy(), 1..9))
                    .prop_map(|(sem, rewrite, calls)| BioHistCase { sem, rewrite, calls })
                    .boxed()
            },
            c11_bio,
        )],
    }
}

// ------------------------------------------------------------------------------------------
// C14

#[derive(Clone, Copy, Debug, Serialize, Deserialize, PartialEq, Eq, Hash)]
pub enum RoundTrip {
    SerdeJson,
    NodeList,
}

#[derive(Clone, Debug, Serialize, Deserialize)]
pub struct PersistCase {
    pub sem: SemCase,
    pub backend: u8,
    pub prefix: Vec<Call>,
    pub trip: RoundTrip,
    pub after: Vec<Call>,
}

/// the web service's database representation: everything through decimal strings
fn node_list_round_trip(a: &Adf) -> Result<Adf, String> {
    let names: Vec<String> = a.ordering.names().read().unwrap().clone();
    let mapping: HashMap<String, String> = a
        .ordering
        .mappings()
        .read()
        .unwrap()
        .iter()
        .map(|(k, v)| (k.clone(), v.to_string()))
        .collect();
    let bdd: Vec<(String, String, String)> = a
        .bdd
        .nodes
        .iter()
        .map(|n| (n.var().0.to_string(), n.lo().0.to_string(), n.hi().0.to_string()))
        .collect();
    let ac: Vec<String> = a.ac.iter().map(|t| t.0.to_string()).collect();
    // through JSON text, as a document store would
    let doc = serde_json::to_string(&json!({"names": names, "mapping": mapping, "bdd": bdd, "ac": ac}))
        .map_err(|e| e.to_string())?;
    let v: serde_json::Value = serde_json::from_str(&doc).map_err(|e| e.to_string())?;
    let names: Vec<String> = serde_json::from_value(v["names"].clone()).map_err(|e| e.to_string())?;
    let mapping: HashMap<String, String> = serde_json::from_value(v["mapping"].clone()).map_err(|e| e.to_string())?;
    let bdd: Vec<(String, String, String)> = serde_json::from_value(v["bdd"].clone()).map_err(|e| e.to_string())?;
    let ac: Vec<String> = serde_json::from_value(v["ac"].clone()).map_err(|e| e.to_string())?;
    let p = |s: &String| s.parse::<usize>().map_err(|e| e.to_string());
    let nodes: Vec<BddNode> = bdd
        .iter()
        .map(|(v, l, h)| Ok(BddNode::new(Var(p(v)?), Term(p(l)?), Term(p(h)?))))
        .collect::<Result<_, String>>()?;
    let vc = VarContainer::from_parser(
        Arc::new(RwLock::new(names)),
        Arc::new(RwLock::new(
            mapping
                .into_iter()
                .map(|(k, v)| Ok((k, v.parse::<usize>().map_err(|e| e.to_string())?)))
                .collect::<Result<_, String>>()?,
        )),
    );
    Ok(Adf::from((
        vc,
        Bdd::from(nodes),
        ac.iter().map(|t| Ok(Term(p(t)?))).collect::<Result<_, String>>()?,
    )))
}

fn serde_round_trip(a: &Adf) -> Result<Adf, String> {
    let s = serde_json::to_string(a).map_err(|e| format!("export: {e}"))?;
    // every standard way of reading the exported text back must work and agree
    let mut b: Adf = serde_json::from_str(&s).map_err(|e| format!("import: {e}"))?;
    let r: Adf = serde_json::from_reader(s.as_bytes()).map_err(|e| format!("import through a reader: {e}"))?;
    let v: serde_json::Value = serde_json::from_str(&s).map_err(|e| format!("export is not JSON: {e}"))?;
    let w: Adf = serde_json::from_value(v).map_err(|e| format!("import from a JSON value: {e}"))?;
    let pretty = serde_json::to_string_pretty(a).map_err(|e| format!("pretty export: {e}"))?;
    let p: Adf = serde_json::from_str(&pretty).map_err(|e| format!("import of the pretty-printed export: {e}"))?;
    for (what, o) in [("reader", &r), ("value", &w), ("pretty", &p)] {
        if o.bdd.nodes != b.bdd.nodes || o.ac != b.ac || sut::names_of(o) != sut::names_of(&b) {
            return Err(format!("import via {what} differs from import via from_str"));
        }
    }
    b.fix_import();
    Ok(b)
}

const ALL_SEMANTICS: [Call; 11] = [
    Call::Grounded,
    Call::Complete,
    Call::Stable,
    Call::StablePrefilter,
    Call::CountA,
    Call::CountB,
    Call::StableNg(0),
    Call::StableNg(1),
    Call::StableNg(2),
    Call::TwoValNg(1),
    Call::PathQueries,
];

fn c14_check(c: &PersistCase, st: &mut Stats) -> CheckResult {
    let text = c.sem.adf.text();
    let be = backend_of(c.backend);
    let res = sut::with_parser(&text, c.sem.sort, |p| -> Result<bool, String> {
        let names: Vec<String> = p.var_container().names().read().unwrap().clone();
        let perm = sut::perm_from_names(&names, &c.sem.adf.labels)?;
        let mut orig = build_native_like(p, be);
        let fresh_nodes = orig.bdd.nodes.len();
        for call in &c.prefix {
            calls::exec(&mut orig, call)?;
        }
        let grew = orig.bdd.nodes.len() > fresh_nodes;
        let mut imp = match c.trip {
            RoundTrip::SerdeJson => serde_round_trip(&orig)?,
            RoundTrip::NodeList => node_list_round_trip(&orig)?,
        };
        // identical numbering
        if imp.bdd.nodes != orig.bdd.nodes {
            return Err(format!(
                "{:?}: node table differs after the round trip ({} vs {} nodes)",
                c.trip,
                imp.bdd.nodes.len(),
                orig.bdd.nodes.len()
            ));
        }
        if imp.ac != orig.ac {
            return Err(format!("{:?}: acceptance handles differ after the round trip", c.trip));
        }
        if sut::names_of(&imp) != sut::names_of(&orig) {
            return Err(format!("{:?}: statement names differ after the round trip", c.trip));
        }
        for (li, nm) in names.iter().enumerate() {
            if imp.ordering.variable(nm) != Some(Var(li)) || imp.ordering.name(Var(li)).as_deref() != Some(nm) {
                return Err(format!("{:?}: dictionary broken for {nm:?} after the round trip", c.trip));
            }
        }
        // every semantics answer equals the original's and the definition
        for call in ALL_SEMANTICS.iter().chain(c.after.iter()) {
            let a = calls::abstract_raw(&calls::exec(&mut imp, call).map_err(|e| format!("re-imported {call:?}: {e}"))?, true);
            let b = calls::abstract_raw(&calls::exec(&mut orig, call)?, true);
            if a != b {
                return Err(format!(
                    "{:?} after prefix {:?}: re-imported object answers {call:?} with {a:?}, the original with {b:?}",
                    c.trip,
                    c.prefix.iter().map(|c| c.kind()).collect::<Vec<_>>()
                ));
            }
            if let (Some(exp), Abs::Interps(got)) = (calls::expected_logical(&c.sem.adf.acs, call), &a) {
                let mut got_l: Vec<_> = got.iter().map(|g| sut::to_logical(&perm, g)).collect::<Result<_, _>>()?;
                got_l.sort();
                if got_l != exp {
                    return Err(format!(
                        "{:?}: re-imported object answers {call:?} with {} but the definition gives {}",
                        c.trip,
                        crate::oracle::show_set(&got_l),
                        crate::oracle::show_set(&exp)
                    ));
                }
            }
        }
        // continuing to work on the re-imported store keeps it canonical
        structural_invariants(&imp.bdd.nodes, Some(names.len())).map_err(|e| format!("re-imported store: {e}"))?;
        structural_invariants(&orig.bdd.nodes, Some(names.len()))?;
        Ok(grew)
    });
    let grew = match res {
        Err(e) => return Err(format!("well-formed input rejected: {e}")),
        Ok(Err(e)) => return Err(e),
        Ok(Ok(x)) => x,
    };
    st.label(&format!("{:?}", c.trip));
    st.label(&format!("{:?}", be));
    if grew || be != Backend::Native {
        st.nontrivial(stable_hash(&(case_hash(&c.sem), &c.prefix, c.trip, c.backend % 4, &c.after)), || {
            json!({"text": text, "backend": format!("{be:?}"), "prefix": c.prefix.iter().map(|c| format!("{c:?}")).collect::<Vec<_>>(), "round_trip": format!("{:?}", c.trip)})
        });
    }
    Ok(Outcome::Ok)
}

/// Wide ADFs (65..90 statements) in which one condition is a long chain over all other statements: diagrams with
/// children of very different depth and more variables than a machine word has bits.
#[derive(Clone, Debug, Serialize, Deserialize, Hash)]
pub struct DeepPersist {
    pub n: u8,
    /// per statement >= 1: (kind of its own condition: 0 verum, 1 falsum, 2 negation of its predecessor, 3 itself), (connective
    /// joining it into statement 0's chain: false and / true or), polarity in the chain
    pub spec: Vec<(u8, bool, bool)>,
    pub backend: u8,
    pub trip: RoundTrip,
    /// connectives of the chain: 0 and / or (as given per statement), 1 exclusive-or only, 2 equivalence only, 3 all mixed
    /// (with exclusive-or / equivalence the diagram has 2^(n-1) paths: more than a machine word counts)
    #[serde(default)]
    pub parity: u8,
}

fn deep_persist_case() -> BoxedStrategy<DeepPersist> {
    (
        prop_oneof![3 => 65u8..=90, 1 => 60u8..=66],
        proptest::collection::vec((0u8..4, any::<bool>(), any::<bool>()), 90),
        0u8..4,
        prop_oneof![Just(RoundTrip::SerdeJson), Just(RoundTrip::NodeList)],
        prop_oneof![3 => Just(0u8), 1 => Just(1u8), 1 => Just(2u8), 1 => Just(3u8)],
    )
        .prop_map(|(n, spec, backend, trip, parity)| DeepPersist { n, spec, backend, trip, parity })
        .boxed()
}

fn c14_deep(c: &DeepPersist, st: &mut Stats) -> CheckResult {
    use crate::formula::F;
    let n = c.n as usize;
    let mut acs: Vec<F> = vec![F::Top; n];
    let mut selfish = 0;
    let mut chain: Option<F> = None;
    for i in (1..n).rev() {
        let (kind, or, pol) = c.spec[i % c.spec.len()];
        acs[i] = match kind {
            0 => F::Top,
            1 => F::Bot,
            2 if i > 1 => F::not(F::Atom(i - 1)),
            3 if selfish < 3 => {
                selfish += 1;
                F::Atom(i)
            }
            _ => F::Top,
        };
        let lit = if pol { F::Atom(i) } else { F::not(F::Atom(i)) };
        chain = Some(match chain {
            None => lit,
            Some(rest) => match (c.parity % 4, or) {
                (1, _) => F::xor(lit, rest),
                (2, _) => F::iff(rest, lit),
                (3, true) if i % 3 == 0 => F::xor(rest, lit),
                (3, false) if i % 3 == 0 => F::iff(lit, rest),
                (_, true) => F::or(lit, rest),
                (_, false) => F::and(lit, rest),
            },
        });
    }
    acs[0] = chain.unwrap();
    let adf = crate::gen::AdfCase::simple(acs);
    let text = adf.text();
    let be = backend_of(c.backend);
    let res = sut::with_parser_opt(&text, Sort::None, false, |p| -> Result<usize, String> {
        let mut orig = build_native_like(p, be);
        let mut imp = match c.trip {
            RoundTrip::SerdeJson => serde_round_trip(&orig)?,
            RoundTrip::NodeList => node_list_round_trip(&orig)?,
        };
        if imp.bdd.nodes != orig.bdd.nodes {
            return Err(format!("{:?}: node table differs after the round trip ({} vs {} nodes)", c.trip, imp.bdd.nodes.len(), orig.bdd.nodes.len()));
        }
        if imp.ac != orig.ac {
            return Err(format!("{:?}: acceptance handles differ after the round trip", c.trip));
        }
        if sut::names_of(&imp) != sut::names_of(&orig) {
            return Err(format!("{:?}: statement names differ after the round trip", c.trip));
        }
        for call in [Call::PathQueries, Call::Grounded, Call::Complete, Call::Stable, Call::StablePrefilter, Call::CountA, Call::StableNg(0), Call::StableNg(1), Call::TwoValNg(2), Call::PathQueries] {
            let a = calls::abstract_raw(&calls::exec(&mut imp, &call).map_err(|e| format!("re-imported {call:?}: {e}"))?, true);
            let b = calls::abstract_raw(&calls::exec(&mut orig, &call)?, true);
            if a != b {
                return Err(format!("{:?}: re-imported object answers {call:?} differently from the original", c.trip));
            }
        }
        // a second trip from the imported object
        let again = match c.trip {
            RoundTrip::SerdeJson => serde_round_trip(&imp)?,
            RoundTrip::NodeList => node_list_round_trip(&imp)?,
        };
        if again.bdd.nodes != imp.bdd.nodes || again.ac != imp.ac {
            return Err(format!("{:?}: a second round trip changes the object", c.trip));
        }
        Ok(orig.bdd.nodes.len())
    });
    let nodes = match res {
        Err(e) => return Err(format!("well-formed input rejected: {e}")),
        Ok(Err(e)) => return Err(e),
        Ok(Ok(x)) => x,
    };
    st.label(&format!("deep:{:?}", c.trip));
    if nodes >= 60 {
        st.nontrivial(stable_hash(c), || json!({"statements": n, "nodes": nodes, "round_trip": format!("{:?}", c.trip), "backend": format!("{be:?}")}));
    }
    Ok(Outcome::Ok)
}

pub fn c14(tier: Tier) -> PropSpec {
    PropSpec {
        id: "C14",
        level: "exploration",
        rule: "generated ADF (n<=6) x back-end (native / bridged +/- pre-grounding) x prefix history of 0..6 API calls (incl. extra formulas \
               on the shared diagram) x round trip in {serde JSON + fix_import, node-list rebuild through decimal strings and a JSON document \
               as the web service's database layer does}. Oracle: node table, acceptance handles, names and dictionary identical; all \
               eleven semantics/query calls plus a generated continuation answer the same on the re-imported object, on the original and by \
               the definition; both stores stay canonical afterwards. The JSON text itself is never compared byte-wise. \
               Non-trivial: exported after the node table grew beyond construction, or bridged ADF.",
        assumptions: vec!["oracle.rs; the CLI clauses (--export never overwrites, --import prints the same) are exercised in the part 'cli' (see C15 harness)"],
        exhaustive: false,
        parts: vec![Part::new(
            "roundtrip",
            tier.pick(12000, 120000),
            || {
                (
                    sem_case(1, 6),
                    0u8..4,
                    proptest::collection::vec(calls::call_strategy(true), 0..6),
                    prop_oneof![Just(RoundTrip::SerdeJson), Just(RoundTrip::NodeList)],
                    proptest::collection::vec(calls::call_strategy(true), 0..4),
                )
                    .prop_map(|(sem, backend, prefix, trip, after)| PersistCase { sem, backend, prefix, trip, after })
                    .boxed()
            },
            c14_check,
        ),
        // 65..90 statements, one condition a long chain over all others
        Part::with_shrink("deep-roundtrip", tier.pick(320, 4000), 200, deep_persist_case, c14_deep),
        // the web service's real database layer (SimplifiedAdf <-> Adf through the MongoDB stub): problems
        // are parsed, stored, loaded and solved; a tenth of them have 11..14 statements
        Part::with_shrink(
            "web-storage",
            tier.pick(150, 1500),
            40,
            crate::props::web::web_case_storage,
            crate::props::web::c16_check_entry,
        ),
        Part::with_shrink(
            "cli-export",
            tier.pick(150, 1500),
            300,
            crate::props::cli::cli_export_strategy,
            crate::props::cli::cli_export_check,
        )],
    }
}
