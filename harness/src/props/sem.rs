//! C01–C05: ADF semantics against the definitional oracle, on every back-end / variant.

use crate::engine::*;
use crate::formula::F;
use crate::gen::{self, AdfCase, LabelClass};
use crate::oracle::{self, show, show_set, Interp, Oracle, Tv};
use crate::sut::{self, Sort};
use adf_bdd::adf::heuristics::{Heuristic, HeuristicFn};
use adf_bdd::adf::Adf;
use adf_bdd::adfbiodivine::Adf as BdAdf;
use adf_bdd::datatypes::{Term, Var};
use adf_bdd::parser::AdfParser;
use proptest::prelude::*;
use serde::{Deserialize, Serialize};
use serde_json::json;
use std::sync::{Arc, Mutex};

#[derive(Clone, Debug, Serialize, Deserialize)]
pub struct SemCase {
    pub adf: AdfCase,
    pub sort: Sort,
}

pub fn sort_strategy() -> BoxedStrategy<Sort> {
    prop_oneof![3 => Just(Sort::None), 1 => Just(Sort::Lexi), 1 => Just(Sort::Alphanum)].boxed()
}

pub fn sem_case(lo: usize, hi: usize) -> BoxedStrategy<SemCase> {
    (
        gen::adf_case(gen::adf_small(lo, hi), LabelClass::Quoted),
        sort_strategy(),
    )
        .prop_map(|(adf, sort)| SemCase { adf, sort })
        .boxed()
}

pub fn case_hash(c: &SemCase) -> u64 {
    stable_hash(&(&c.adf.acs, &c.adf.labels, &c.adf.layout, c.sort))
}

fn sample(c: &SemCase, extra: serde_json::Value) -> serde_json::Value {
    json!({"text": c.adf.text(), "sort": format!("{:?}", c.sort), "info": extra})
}

/// Which object the call is made on.
#[derive(Clone, Copy, Debug, PartialEq, Eq)]
pub enum Backend {
    Native,
    Bio,
    HybridPre,
    HybridNoPre,
    FromBio,
    /// native object whose diagram store got a listener (`bdd.set_sender`) that has hung up already: every node created
    /// from now on is reported to a closed channel
    NativeDeaf,
    /// the same on a bridged object
    HybridDeaf,
}
pub const NATIVE_LIKE: [Backend; 4] = [
    Backend::Native,
    Backend::HybridPre,
    Backend::HybridNoPre,
    Backend::FromBio,
];

pub fn build_native_like(parser: &AdfParser, b: Backend) -> Adf {
    match b {
        Backend::Native => Adf::from_parser(parser),
        Backend::HybridPre => BdAdf::from_parser(parser).hybrid_step(),
        Backend::HybridNoPre => BdAdf::from_parser(parser).hybrid_step_opt(false),
        Backend::FromBio => Adf::from_biodivine(&BdAdf::from_parser(parser)),
        Backend::NativeDeaf | Backend::HybridDeaf => {
            let mut a = if b == Backend::NativeDeaf { Adf::from_parser(parser) } else { BdAdf::from_parser(parser).hybrid_step_opt(false) };
            let (s, r) = crossbeam_channel::unbounded();
            a.bdd.set_sender(s);
            drop(r);
            a
        }
        Backend::Bio => unreachable!(),
    }
}

fn parser_names(parser: &AdfParser) -> Vec<String> {
    parser.var_container().names().read().unwrap().clone()
}

/// compare a list of interpretations (library order) with the expected set, as multisets
fn cmp_multiset(
    what: &str,
    perm: &[usize],
    got: &[Vec<Term>],
    expected: &[Interp],
) -> Result<(), String> {
    let mut g = sut::set_to_logical(perm, got).map_err(|e| format!("{what}: {e}"))?;
    g.sort();
    let mut e = expected.to_vec();
    e.sort();
    if g != e {
        return Err(format!(
            "{what}: returned {} but the definition gives {}",
            show_set(&g),
            show_set(&e)
        ));
    }
    Ok(())
}

// ------------------------------------------------------------------------------------------
// C01

fn c01_check(c: &SemCase, st: &mut Stats, large: bool) -> CheckResult {
    let text = c.adf.text();
    let n = c.adf.n();
    let (expected, rounds) = if large || n > 7 {
        oracle::grounded_local(&c.adf.acs)
    } else {
        let o = Oracle::new(&c.adf.acs);
        let r = o.grounded();
        // cross-check the two oracle implementations against each other
        let l = oracle::grounded_local(&c.adf.acs);
        if l.0 != r.0 {
            return Err(format!(
                "ORACLE SELF-CHECK failed: {} vs {}",
                show(&r.0),
                show(&l.0)
            ));
        }
        r
    };
    let res: Result<Result<(), String>, String> = sut::with_parser(&text, c.sort, |p| {
        let names = parser_names(p);
        let perm = sut::perm_from_names(&names, &c.adf.labels)?;
        let mut answers: Vec<(&str, Vec<Term>)> = Vec::new();
        for (nm, b) in [
            ("native", Backend::Native),
            ("hybrid(pre-grounded)", Backend::HybridPre),
            ("hybrid(no pre-grounding)", Backend::HybridNoPre),
            ("from_biodivine", Backend::FromBio),
            ("native, listener hung up", Backend::NativeDeaf),
            ("hybrid, listener hung up", Backend::HybridDeaf),
        ] {
            let mut a = build_native_like(p, b);
            let an = sut::names_of(&a);
            if an != names {
                return Err(format!("{nm}: ordering {an:?} differs from parser {names:?}"));
            }
            answers.push((nm, a.grounded()));
        }
        answers.push(("biodivine", BdAdf::from_parser(p).grounded()));
        for (nm, g) in &answers {
            let got = sut::to_logical(&perm, &sut::abs(g)).map_err(|e| format!("{nm}: {e}"))?;
            if got != expected {
                return Err(format!(
                    "{nm}: grounded {} but least fixpoint is {}",
                    show(&got),
                    show(&expected)
                ));
            }
        }
        Ok(())
    });
    match res {
        Err(e) => return Err(format!("well-formed input rejected: {e}")),
        Ok(Err(e)) => return Err(e),
        Ok(Ok(())) => {}
    }
    let dec = expected.iter().filter(|t| t.decided()).count();
    st.label(&format!("rounds={}", rounds.min(6)));
    if large {
        st.label("large");
    }
    if rounds >= 3 || (dec > 0 && dec < n) {
        st.nontrivial(case_hash(c), || {
            sample(c, json!({"grounded": show(&expected), "rounds": rounds}))
        });
    }
    Ok(Outcome::Ok)
}

pub fn c01(tier: Tier) -> PropSpec {
    let hi = tier.pick(6, 7);
    PropSpec {
        id: "C01",
        level: "exploration",
        rule: "generated ADFs (random syntax / random truth-table functions / propagation chains / cycles; \
               random labels, fact order, layout, sort mode) -> grounded() on native, biodivine, hybrid(+/- \
               pre-grounding), from_biodivine compared with the least fixpoint of the three-valued operator \
               computed on truth tables (n<=7) or by local three-valued evaluation (large: n 10..40, a quarter 60..100 statements; wide: 120..135, 250..262 and 500..530 statements). \
               Non-trivial: the fixpoint needs >= 3 rounds, or has both decided and undecided statements; \
               distinct by hash of (formulas, labels, layout, sort).",
        assumptions: vec![
            "oracle.rs / formula.rs (truth-table semantics) are correct; the two oracle implementations are cross-checked on every small case",
            "labels never contain the characters biodivine reserves (open finding K1 is probed in C15/C16)",
        ],
        exhaustive: false,
        parts: vec![
            Part::new(
                "small",
                tier.pick(40000, 600000),
                move || sem_case(1, hi),
                |c: &SemCase, st| c01_check(c, st, false),
            ),
            Part::new(
                "large",
                tier.pick(1500, 20000),
                || {
                    (
                        gen::adf_case(prop_oneof![3 => gen::adf_large(10, 40, 8, 5), 1 => gen::adf_large(60, 100, 6, 4)].boxed(), LabelClass::Alnum),
                        sort_strategy(),
                    )
                        .prop_map(|(adf, sort)| SemCase { adf, sort })
                        .boxed()
                },
                |c: &SemCase, st| c01_check(c, st, true),
            ),
            Part::new(
                "wide",
                tier.pick(160, 2000),
                || {
                    (
                        gen::adf_case(prop_oneof![2 => gen::adf_large(250, 262, 4, 3), 1 => gen::adf_large(120, 135, 5, 3), 1 => gen::adf_large(500, 530, 3, 3)].boxed(), LabelClass::Alnum),
                        sort_strategy(),
                    )
                        .prop_map(|(adf, sort)| SemCase { adf, sort })
                        .boxed()
                },
                |c: &SemCase, st| c01_check(c, st, true),
            ),
            Box::new(Logged(Part::new("small-with-logging", tier.pick(1500, 15000), move || sem_case(1, 5), |c: &SemCase, st| c01_check(c, st, false)))),
            crate::props::cli::sem_cli_part("cli-grd", &[crate::props::cli::Flag::Grd], tier.pick(150, 1500)),
        ],
    }
}

// ------------------------------------------------------------------------------------------
// C02

fn c02_check(c: &SemCase, st: &mut Stats) -> CheckResult {
    let text = c.adf.text();
    let o = Oracle::new(&c.adf.acs);
    let expected = o.complete();
    let (grd, _) = o.grounded();
    if !expected.contains(&grd) {
        return Err("ORACLE SELF-CHECK: grounded not among complete".into());
    }
    let res = sut::with_parser(&text, c.sort, |p| -> Result<(), String> {
        let names = parser_names(p);
        let perm = sut::perm_from_names(&names, &c.adf.labels)?;
        let mut answers: Vec<(&str, Vec<Vec<Term>>)> = Vec::new();
        for (nm, b) in [
            ("native", Backend::Native),
            ("hybrid(pre-grounded)", Backend::HybridPre),
            ("hybrid(no pre-grounding)", Backend::HybridNoPre),
            ("from_biodivine", Backend::FromBio),
            ("native, listener hung up", Backend::NativeDeaf),
            ("hybrid, listener hung up", Backend::HybridDeaf),
        ] {
            let mut a = build_native_like(p, b);
            answers.push((nm, a.complete().collect()));
        }
        answers.push(("biodivine", BdAdf::from_parser(p).complete().collect()));
        for (nm, got) in &answers {
            cmp_multiset(&format!("{nm}.complete()"), &perm, got, &expected)?;
            let first = sut::to_logical(&perm, &sut::abs(&got[0]))?;
            if first != grd {
                return Err(format!(
                    "{nm}.complete(): first model {} is not the grounded interpretation {}",
                    show(&first),
                    show(&grd)
                ));
            }
        }
        Ok(())
    });
    match res {
        Err(e) => return Err(format!("well-formed input rejected: {e}")),
        Ok(Err(e)) => return Err(e),
        Ok(Ok(())) => {}
    }
    st.label(&format!("complete_models={}", expected.len().min(9)));
    if expected.len() >= 2 && grd.iter().any(|t| !t.decided()) {
        st.nontrivial(case_hash(c), || {
            sample(c, json!({"complete": show_set(&expected), "grounded": show(&grd)}))
        });
    }
    Ok(Outcome::Ok)
}


/// ADFs in which 41..130 statements stay undecided in the grounded interpretation: 3^k does not fit a machine word, the
/// enumeration is lazy, so the first models must be right: grounded first, every listed interpretation a fixpoint of the
/// consequence operator (checked by local three-valued evaluation), no repetition.
#[derive(Clone, Debug, Serialize, Deserialize, Hash)]
pub struct LazyComplete {
    pub n: u8,
    pub spec: Vec<(u8, u8)>,
    pub sort: Sort,
}

fn c02_lazy(c: &LazyComplete, st: &mut Stats) -> CheckResult {
    let n = c.n as usize;
    let acs: Vec<F> = (0..n)
        .map(|i| {
            let (kind, d) = c.spec[i % c.spec.len()];
            let j = (i + 1 + d as usize) % n;
            match kind % 8 {
                0 | 1 | 2 | 3 => F::Atom(i),
                4 => F::or(F::Atom(i), F::and(F::Atom(j), F::not(F::Atom(j)))),
                5 => F::and(F::Atom(i), F::or(F::Atom(j), F::not(F::Atom(j)))),
                6 => if i % 2 == 0 { F::Top } else { F::Bot },
                _ => F::and(F::Atom(i), F::Atom(j)),
            }
        })
        .collect();
    let adf = gen::AdfCase::simple(acs.clone());
    let text = adf.text();
    let (grd, _) = oracle::grounded_local(&acs);
    let k = grd.iter().filter(|t| !t.decided()).count();
    const TAKE: usize = 10;
    let res = sut::with_parser_opt(&text, c.sort, false, |p| -> Result<(), String> {
        let names = parser_names(p);
        let perm = sut::perm_from_names(&names, &adf.labels)?;
        let mut answers: Vec<(&str, Vec<Vec<Term>>)> = Vec::new();
        for (nm, b) in [("native", Backend::Native), ("hybrid(pre-grounded)", Backend::HybridPre), ("hybrid(no pre-grounding)", Backend::HybridNoPre), ("from_biodivine", Backend::FromBio)] {
            let mut a = build_native_like(p, b);
            answers.push((nm, a.complete().take(TAKE).collect()));
        }
        answers.push(("biodivine", BdAdf::from_parser(p).complete().take(TAKE).collect()));
        for (nm, got) in &answers {
            if got.is_empty() {
                return Err(format!("{nm}.complete() lists nothing ({k} of {n} statements undecided in the grounded interpretation)"));
            }
            let mut seen = std::collections::HashSet::new();
            for (idx, g) in got.iter().enumerate() {
                let v = sut::to_logical(&perm, &sut::abs(g)).map_err(|e| format!("{nm}: {e}"))?;
                if idx == 0 && v != grd {
                    return Err(format!("{nm}.complete(): first model {} is not the grounded interpretation {} ({k} undecided statements)", show(&v), show(&grd)));
                }
                for s in 0..n {
                    let want = oracle::eval3(&acs[s], &v);
                    if want != v[s] {
                        return Err(format!("{nm}.complete(): model no. {idx} {} is not complete: statement {s} is {:?} but its condition evaluates to {:?} ({k} undecided statements)", show(&v), v[s], want));
                    }
                }
                if !seen.insert(v) {
                    return Err(format!("{nm}.complete(): model no. {idx} was listed before ({k} undecided statements)"));
                }
            }
        }
        Ok(())
    });
    match res {
        Err(e) => return Err(format!("well-formed input rejected: {e}")),
        Ok(Err(e)) => return Err(e),
        Ok(Ok(())) => {}
    }
    st.label(if k >= 64 { "undecided>=64" } else if k >= 41 { "undecided 41..63" } else { "undecided<41" });
    if k >= 41 {
        st.nontrivial(stable_hash(c), || json!({"statements": n, "undecided_in_grounded": k}));
    }
    Ok(Outcome::Ok)
}

pub fn c02(tier: Tier) -> PropSpec {
    let hi = tier.pick(6, 7);
    PropSpec {
        id: "C02",
        level: "exploration",
        rule: "generated ADFs (as C01, n<=6 quick / 7 thorough) -> complete() on native, biodivine, hybrid(+/-pre), \
               from_biodivine compared as multisets with {v in {T,F,u}^n : Gamma(v)=v} enumerated over all 3^n \
               interpretations; first element must be the grounded interpretation. Part lazy-wide: 10..135 statements of which most stay undecided (3^k beyond a machine word): the first 10 listed models on every back-end are the grounded one first, fixpoints by local three-valued evaluation, pairwise different. Non-trivial: >= 2 complete models \
               and grounded not total.",
        assumptions: vec!["oracle.rs enumerates all 3^n interpretations and applies the definition of the consequence operator on truth tables"],
        exhaustive: false,
        parts: vec![Part::new(
            "small",
            tier.pick(30000, 400000),
            move || sem_case(1, hi),
            c02_check,
        ),
        Part::new(
            "lazy-wide",
            tier.pick(400, 4000),
            || {
                (prop_oneof![2 => 41u8..70, 1 => 120u8..135, 1 => 10u8..41], proptest::collection::vec((any::<u8>(), 0u8..5), 8..24), sort_strategy())
                    .prop_map(|(n, spec, sort)| LazyComplete { n, spec, sort })
                    .boxed()
            },
            c02_lazy,
        ),
        Box::new(Logged(Part::new("small-with-logging", tier.pick(1500, 15000), || sem_case(1, 5), c02_check))),
        crate::props::cli::sem_cli_part("cli-com", &[crate::props::cli::Flag::Com, crate::props::cli::Flag::Grd], tier.pick(150, 1500))],
    }
}

/// What the definitions give for an ADF: on truth tables for n <= 7, by formula evaluation beyond
/// (generators for wider ADFs keep the supports small).
pub struct Expect {
    pub stable: Vec<Interp>,
    pub two: Vec<Interp>,
    pub grd: Interp,
}
pub fn expect_of(acs: &[F]) -> Expect {
    if acs.len() <= 7 {
        let o = Oracle::new(acs);
        Expect { stable: oracle::stable(acs), two: o.two_valued(), grd: o.grounded().0 }
    } else if acs.len() <= 16 {
        let (stable, two) = oracle::stable_wide(acs);
        // the two oracles for wide ADFs are cross-checked whenever both apply
        if let Some((s2, t2)) = oracle::stable_sparse(acs) {
            assert!(s2 == stable && t2 == two, "ORACLE SELF-CHECK failed: stable_wide vs stable_sparse");
        }
        Expect { stable, two, grd: oracle::grounded_local(acs).0 }
    } else {
        let (stable, two) = oracle::stable_sparse(acs).expect("generator keeps the number of statements on cycles small");
        Expect { stable, two, grd: oracle::grounded_local(acs).0 }
    }
}

/// wide ADFs (66..140 statements) with a small cyclic core placed first / last / in the middle of the declaration order
pub fn sem_case_wide_core(lo: usize, hi: usize, hang: usize) -> BoxedStrategy<SemCase> {
    (gen::adf_stratified(lo, hi, hang), sort_strategy())
        .prop_map(|(acs, sort)| {
            let mut adf = gen::AdfCase::simple(acs);
            // zero-padded labels: every sort mode keeps the generated order (dependencies stay local in the variable order)
            adf.labels = (0..adf.acs.len()).map(|i| format!("w{i:04}")).collect();
            SemCase { adf, sort }
        })
        .boxed()
}

pub fn sem_case_wide_chains(lo: usize, hi: usize) -> BoxedStrategy<SemCase> {
    (gen::adf_core_chains(lo, hi), sort_strategy())
        .prop_map(|(acs, sort)| {
            let mut adf = gen::AdfCase::simple(acs);
            adf.labels = (0..adf.acs.len()).map(|i| format!("w{i:04}")).collect();
            SemCase { adf, sort }
        })
        .boxed()
}

pub fn sem_case_many_models(lo: usize, hi: usize) -> BoxedStrategy<SemCase> {
    (gen::adf_case(gen::adf_many_models(lo, hi), LabelClass::Alnum), sort_strategy())
        .prop_map(|(adf, sort)| SemCase { adf, sort })
        .boxed()
}

// ------------------------------------------------------------------------------------------
// C03

fn c03_check(c: &SemCase, st: &mut Stats) -> CheckResult {
    let text = c.adf.text();
    let Expect { stable: expected, two, grd } = expect_of(&c.adf.acs);
    let res = sut::with_parser(&text, c.sort, |p| -> Result<(), String> {
        let names = parser_names(p);
        let perm = sut::perm_from_names(&names, &c.adf.labels)?;
        let bio = BdAdf::from_parser(p);
        let bio_rw = BdAdf::from_parser_with_stm_rewrite(p);
        if !bio_rw.has_stm_rewriting() || bio.has_stm_rewriting() {
            return Err("has_stm_rewriting() flags wrong".into());
        }
        let mut answers: Vec<(String, Vec<Vec<Term>>)> = Vec::new();
        for (nm, b) in [
            ("native", Backend::Native),
            ("hybrid(pre)", Backend::HybridPre),
            ("hybrid(nopre)", Backend::HybridNoPre),
            ("from_biodivine", Backend::FromBio),
            ("native, listener hung up", Backend::NativeDeaf),
            ("hybrid, listener hung up", Backend::HybridDeaf),
        ] {
            let mut a = build_native_like(p, b);
            answers.push((format!("{nm}.stable()"), a.stable().collect()));
            answers.push((
                format!("{nm}.stable_with_prefilter()"),
                a.stable_with_prefilter().collect(),
            ));
            answers.push((
                format!("{nm}.stable_bdd_representation(bio)"),
                a.stable_bdd_representation(&bio),
            ));
            answers.push((
                format!("{nm}.stable_bdd_representation(bio+rewrite)"),
                a.stable_bdd_representation(&bio_rw),
            ));
        }
        answers.push(("biodivine.stable()".into(), bio.stable().collect()));
        answers.push((
            "biodivine.stable_bdd_representation()".into(),
            bio.stable_bdd_representation(),
        ));
        answers.push((
            "biodivine(rewrite).stable_bdd_representation()".into(),
            bio_rw.stable_bdd_representation(),
        ));
        answers.push(("biodivine(rewrite).stable()".into(), bio_rw.stable().collect()));
        for (nm, got) in &answers {
            cmp_multiset(nm, &perm, got, &expected)?;
        }
        Ok(())
    });
    match res {
        Err(e) => return Err(format!("well-formed input rejected: {e}")),
        Ok(Err(e)) => return Err(e),
        Ok(Ok(())) => {}
    }
    st.label(&format!("stable_models={}", expected.len().min(5)));
    if two.len() > expected.len() {
        st.label("has_unstable_two_valued_model");
    }
    if two.len() > 16 {
        st.label("more_than_16_two_valued_models");
    }
    if two.len() > 64 {
        st.label("more_than_64_two_valued_models");
    }
    if two.len() > expected.len() || (!expected.is_empty() && grd.iter().any(|t| !t.decided())) {
        st.nontrivial(case_hash(c), || {
            sample(c, json!({"stable": show_set(&expected), "two_valued": show_set(&two)}))
        });
    }
    Ok(Outcome::Ok)
}

/// The one revision of a shared variable container the documentation allows is adding statements. A biodivine ADF
/// built BEFORE such an addition must still hand over exactly its own statements in the hybrid step.
fn c03_grown_check(c: &SemCase, st: &mut Stats) -> CheckResult {
    let text = c.adf.text();
    let n = c.adf.n();
    let Expect { stable: expected, two, grd } = expect_of(&c.adf.acs);
    let complete = Oracle::new(&c.adf.acs).complete();
    let extra: Vec<String> = (0..3).map(|i| format!("zzverifextra{i}")).filter(|l| !c.adf.labels.contains(l)).collect();
    let res = sut::with_parser_opt(&text, c.sort, false, |p| -> Result<(), String> {
        let bio = BdAdf::from_parser(p);
        let bio_rw = BdAdf::from_parser_with_stm_rewrite(p);
        // a second parser over the same container declares more statements
        let p2 = AdfParser::with_var_container(p.var_container());
        let more: String = extra.iter().map(|l| format!("s({l}).")).collect();
        match p2.parse()(&more) {
            Ok((rest, ())) if rest.is_empty() => {}
            other => return Err(format!("declaring more statements over the shared container failed: {other:?}")),
        }
        let names = parser_names(p);
        if names.len() != n + extra.len() {
            return Err(format!("shared container has {} names after adding {} to {n}", names.len(), extra.len()));
        }
        let perm = sut::perm_from_names(&names[..n], &c.adf.labels)?;
        for (nm, mut a) in [
            ("hybrid(pre)", bio.hybrid_step()),
            ("hybrid(nopre)", bio.hybrid_step_opt(false)),
            ("from_biodivine", Adf::from_biodivine(&bio)),
            ("rewrite.hybrid(nopre)", bio_rw.hybrid_step_opt(false)),
        ] {
            let g = a.grounded();
            if sut::to_logical(&perm, &sut::abs(&g)).map_err(|e| format!("{nm}.grounded() after the container grew: {e}"))? != grd {
                return Err(format!("{nm}.grounded() after the container grew: {} instead of {}", show(&sut::abs(&g)), show(&grd)));
            }
            let got: Vec<Vec<Term>> = a.stable().collect();
            cmp_multiset(&format!("{nm}.stable() after the container grew"), &perm, &got, &expected)?;
            let got: Vec<Vec<Term>> = a.stable_with_prefilter().collect();
            cmp_multiset(&format!("{nm}.stable_with_prefilter() after the container grew"), &perm, &got, &expected)?;
            let got = a.stable_bdd_representation(&bio);
            cmp_multiset(&format!("{nm}.stable_bdd_representation() after the container grew"), &perm, &got, &expected)?;
            let got: Vec<Vec<Term>> = a.stable_count_optimisation_heu_a().collect();
            cmp_multiset(&format!("{nm}.stable_count_optimisation_heu_a() after the container grew"), &perm, &got, &expected)?;
            let got: Vec<Vec<Term>> = a.complete().collect();
            cmp_multiset(&format!("{nm}.complete() after the container grew"), &perm, &got, &complete)?;
        }
        let got: Vec<Vec<Term>> = bio.stable().collect();
        cmp_multiset("biodivine.stable() after the container grew", &perm, &got, &expected)?;
        let got = bio_rw.stable_bdd_representation();
        cmp_multiset("biodivine(rewrite).stable_bdd_representation() after the container grew", &perm, &got, &expected)?;
        Ok(())
    });
    match res {
        Err(e) => return Err(format!("well-formed input rejected: {e}")),
        Ok(Err(e)) => return Err(e),
        Ok(Ok(())) => {}
    }
    if two.len() > expected.len() || !expected.is_empty() {
        st.nontrivial(case_hash(c), || sample(c, json!({"stable": show_set(&expected), "added": extra})));
    }
    Ok(Outcome::Ok)
}

pub fn c03(tier: Tier) -> PropSpec {
    let hi = tier.pick(6, 7);
    PropSpec {
        id: "C03",
        level: "exploration",
        rule: "generated ADFs (as C01, n<=6/7; part many-models: 6..11 statements with tens to hundreds of two-valued models, oracle by formula evaluation; part grown-container: the shared variable container gains statements between the biodivine ADF and the hybrid step) -> 20 call paths (stable, stable_with_prefilter, \
               stable_bdd_representation with internal / parser rewriting on native, hybrid(+/-pre); biodivine stable \
               and both rewritings) compared as multisets with the stable models of the definition (two-valued \
               models whose true statements are re-derived by the grounded interpretation of the reduct). \
               Non-trivial: the ADF has a two-valued model that is not stable, or >= 1 stable model with grounded not total.",
        assumptions: vec!["oracle::stable implements the definition literally on truth tables"],
        exhaustive: false,
        parts: vec![Part::new(
            "small",
            tier.pick(40000, 500000),
            move || sem_case(1, hi),
            c03_check,
        ),
        // tens to hundreds of two-valued models, only some of them stable (candidate lists longer than any core count)
        Part::new("many-models", tier.pick(2500, 25000), || sem_case_many_models(6, 11), c03_check),
        // the shared variable container grows between building the biodivine ADF and the hybrid step
        Part::new("grown-container", tier.pick(3000, 30000), || sem_case(1, 6), c03_grown_check),
        // more statements than a machine word has bits, models that differ only in the first / last declared statements
        Part::with_shrink("wide-core", tier.pick(500, 5000), 60, || sem_case_wide_core(62, 140, 5), c03_check),
        // more than a thousand statements (a diagram edge that skips 1024 and more variables)
        Part::with_shrink("very-wide-core", tier.pick(16, 160), 10, || sem_case_wide_core(1030, 1100, 3), c03_check),
        Box::new(Logged(Part::new("small-with-logging", tier.pick(1500, 15000), || sem_case(1, 5), c03_check))),
        crate::props::cli::sem_cli_part("cli-stm", &[crate::props::cli::Flag::Stm, crate::props::cli::Flag::StmPre, crate::props::cli::Flag::StmRew, crate::props::cli::Flag::StmRew2], tier.pick(150, 1500))],
    }
}

// ------------------------------------------------------------------------------------------
// C04

fn c04_check(c: &SemCase, st: &mut Stats) -> CheckResult {
    let text = c.adf.text();
    let Expect { stable: expected, grd, .. } = expect_of(&c.adf.acs);
    let und = grd.iter().filter(|t| !t.decided()).count();
    let res = sut::with_parser(&text, c.sort, |p| -> Result<Vec<String>, String> {
        let names = parser_names(p);
        let perm = sut::perm_from_names(&names, &c.adf.labels)?;
        let mut labels = Vec::new();
        for (nm, b) in [
            ("native", Backend::Native),
            ("hybrid(pre)", Backend::HybridPre),
            ("hybrid(nopre)", Backend::HybridNoPre),
            ("from_biodivine", Backend::FromBio),
            ("native, listener hung up", Backend::NativeDeaf),
            ("hybrid, listener hung up", Backend::HybridDeaf),
        ] {
            let mut a = build_native_like(p, b);
            // classification from the public API: which branch would the first choice take
            let g = a.grounded();
            if let Some(t) = g.iter().find(|t| !t.is_truth_value()) {
                let pc = a.bdd.paths(*t, true);
                labels.push(
                    if pc.models >= pc.cmodels {
                        "first-undecided:more-model-paths"
                    } else {
                        "first-undecided:more-countermodel-paths"
                    }
                    .to_string(),
                );
            }
            let ra: Vec<Vec<Term>> = a.stable_count_optimisation_heu_a().collect();
            cmp_multiset(&format!("{nm}.stable_count_optimisation_heu_a()"), &perm, &ra, &expected)?;
            let rb: Vec<Vec<Term>> = a.stable_count_optimisation_heu_b().collect();
            cmp_multiset(&format!("{nm}.stable_count_optimisation_heu_b()"), &perm, &rb, &expected)?;
            // fresh object per heuristic as well (no shared cache between a and b)
            let mut a2 = build_native_like(p, b);
            let rb2: Vec<Vec<Term>> = a2.stable_count_optimisation_heu_b().collect();
            cmp_multiset(&format!("{nm}(fresh).stable_count_optimisation_heu_b()"), &perm, &rb2, &expected)?;
        }
        Ok(labels)
    });
    match res {
        Err(e) => return Err(format!("well-formed input rejected: {e}")),
        Ok(Err(e)) => return Err(e),
        Ok(Ok(labels)) => {
            for l in labels {
                st.label(&l);
            }
        }
    }
    st.label(&format!("undecided_in_grounded={}", und.min(7)));
    st.label(&format!("stable_models={}", expected.len().min(5)));
    if (!expected.is_empty() && und >= 2) || expected.len() >= 2 {
        st.nontrivial(case_hash(c), || {
            sample(c, json!({"stable": show_set(&expected), "grounded": show(&grd)}))
        });
    }
    Ok(Outcome::Ok)
}

pub fn c04(tier: Tier) -> PropSpec {
    let hi = tier.pick(6, 7);
    PropSpec {
        id: "C04",
        level: "exploration",
        rule: "generated ADFs (as C01, n<=6/7) -> stable_count_optimisation_heu_a/_b on native, hybrid(+/-pre) \
               (same object and fresh object) compared as multisets with the stable models of the definition. \
               Non-trivial: >= 1 stable model with >= 2 statements undecided in grounded (the search must branch), or >= 2 stable models.",
        assumptions: vec!["oracle::stable implements the definition literally on truth tables"],
        exhaustive: false,
        parts: vec![Part::new(
            "small",
            tier.pick(150000, 2000000),
            move || sem_case(1, hi),
            c04_check,
        ),
        Part::new("many-models", tier.pick(1500, 15000), || sem_case_many_models(6, 11), c04_check),
        Part::with_shrink("wide-core", tier.pick(500, 5000), 60, || sem_case_wide_core(62, 140, 5), c04_check),
        Box::new(Logged(Part::new("small-with-logging", tier.pick(1500, 15000), || sem_case(1, 5), c04_check))),
        crate::props::cli::sem_cli_part("cli-stmc", &[crate::props::cli::Flag::StmCa, crate::props::cli::Flag::StmCb], tier.pick(150, 1500))],
    }
}

// ------------------------------------------------------------------------------------------
// C05

#[derive(Clone, Debug, Serialize, Deserialize)]
pub enum Heu {
    Simple,
    MinModMinPathsMaxVarImp,
    MinModMaxVarImpMinPaths,
    Rand(Vec<u8>),
    /// choice tape: entry -> (k-th undecided statement, value), consumed one per call, wrapping
    Tape(Vec<(u16, bool)>),
    /// history-independent: choice derived from a hash of the interpretation
    HashChoice(u64),
    /// last undecided statement with taped values
    LastUndecided(Vec<bool>),
    /// first undecided statement, always false
    FirstFalse,
}

pub fn heu_strategy() -> BoxedStrategy<Heu> {
    prop_oneof![
        2 => Just(Heu::Simple),
        2 => Just(Heu::MinModMinPathsMaxVarImp),
        2 => Just(Heu::MinModMaxVarImpMinPaths),
        3 => proptest::collection::vec(any::<u8>(), 32).prop_map(Heu::Rand),
        3 => proptest::collection::vec((any::<u16>(), any::<bool>()), 1..12).prop_map(Heu::Tape),
        2 => any::<u64>().prop_map(Heu::HashChoice),
        1 => proptest::collection::vec(any::<bool>(), 1..6).prop_map(Heu::LastUndecided),
        1 => Just(Heu::FirstFalse),
    ]
    .boxed()
}

#[derive(Clone, Copy, Debug, Serialize, Deserialize, PartialEq, Eq)]
pub enum NgMode {
    StableIter,
    StableChannel,
    TwoValChannel,
    /// channel variants with a bounded channel of the given capacity (0 = rendezvous) and a consumer
    /// thread: the search blocks while the channel is full
    StableBounded(u8),
    TwoValBounded(u8),
}

#[derive(Clone, Debug, Serialize, Deserialize)]
pub struct C05Case {
    pub sem: SemCase,
    pub heu: Heu,
    pub mode: NgMode,
    pub backend: u8,
}

struct CustomHeu {
    f: Box<HeuristicFn>,
    calls: Arc<Mutex<(u64, Option<String>)>>,
}

fn custom(h: &Heu) -> Option<CustomHeu> {
    let calls: Arc<Mutex<(u64, Option<String>)>> = Arc::new(Mutex::new((0, None)));
    let cc = calls.clone();
    let h = h.clone();
    let chooser = move |_adf: &Adf, int: &[Term]| -> Option<(Var, Term)> {
        let und: Vec<usize> = int
            .iter()
            .enumerate()
            .filter(|(_, t)| !t.is_truth_value())
            .map(|(i, _)| i)
            .collect();
        let mut g = cc.lock().unwrap();
        let call = g.0;
        g.0 += 1;
        if und.is_empty() {
            g.1 = Some("heuristic was asked on a two-valued interpretation".into());
            return None;
        }
        let (k, val) = match &h {
            Heu::Tape(t) => {
                let (i, v) = t[(call as usize) % t.len()];
                (gen::pick(i, und.len()), v)
            }
            Heu::HashChoice(salt) => {
                let key: Vec<usize> = int.iter().map(|t| t.value().min(2)).collect();
                let hh = stable_hash(&(key, *salt));
                ((hh as usize >> 1) % und.len(), hh & 1 == 1)
            }
            Heu::LastUndecided(t) => (und.len() - 1, t[(call as usize) % t.len()]),
            Heu::FirstFalse => (0, false),
            _ => unreachable!(),
        };
        Some((Var(und[k]), if val { Term::TOP } else { Term::BOT }))
    };
    Some(CustomHeu {
        f: Box::new(chooser),
        calls,
    })
}

fn pow3(n: usize) -> u64 {
    3u64.pow(n as u32)
}

fn c05_check(c: &C05Case, st: &mut Stats) -> CheckResult {
    let text = c.sem.adf.text();
    let n = c.sem.adf.n();
    let ex = expect_of(&c.sem.adf.acs);
    let expected = match c.mode {
        NgMode::TwoValChannel | NgMode::TwoValBounded(_) => ex.two,
        _ => ex.stable,
    };
    let grd = ex.grd;
    let und = grd.iter().filter(|t| !t.decided()).count();
    // wide ADFs (parts wide-core / wide-chains): few statements on cycles, everything else follows by propagation
    let limit = if n > 16 { 4000 * n as u64 } else { 2 * (2 * n as u64 + 4) * (pow3(n) + 1) };
    let backend = [Backend::Native, Backend::HybridPre, Backend::HybridNoPre, Backend::FromBio, Backend::NativeDeaf, Backend::HybridDeaf][(c.backend % 6) as usize];
    let res = sut::with_parser(&text, c.sem.sort, |p| -> Result<(u64, u64), String> {
        let names = parser_names(p);
        let perm = sut::perm_from_names(&names, &c.sem.adf.labels)?;
        let mut a = build_native_like(p, backend);
        let cust = match &c.heu {
            Heu::Tape(_) | Heu::HashChoice(_) | Heu::LastUndecided(_) | Heu::FirstFalse => custom(&c.heu),
            _ => None,
        };
        let heu: Heuristic = match &c.heu {
            Heu::Simple => Heuristic::Simple,
            Heu::MinModMinPathsMaxVarImp => Heuristic::MinModMinPathsMaxVarImp,
            Heu::MinModMaxVarImpMinPaths => Heuristic::MinModMaxVarImpMinPaths,
            Heu::Rand(seed) => {
                let mut s = [0u8; 32];
                for (i, b) in seed.iter().take(32).enumerate() {
                    s[i] = *b;
                }
                a.seed(s);
                Heuristic::Rand
            }
            _ => Heuristic::Custom(&*cust.as_ref().unwrap().f),
        };
        adf_bdd::verif::nogood_reset(limit);
        let run = catch(|| -> Result<Vec<Vec<Term>>, String> {
            match c.mode {
                NgMode::StableIter => Ok(a.stable_nogood(heu).collect()),
                NgMode::StableBounded(cap) | NgMode::TwoValBounded(cap) => {
                    let (s, r) = crossbeam_channel::bounded::<Vec<Term>>((cap % 3) as usize);
                    let done = std::sync::Arc::new(std::sync::atomic::AtomicBool::new(false));
                    let done2 = done.clone();
                    // the consumer takes results at its own pace until the channel closes
                    let consumer = std::thread::spawn(move || -> Result<Vec<Vec<Term>>, String> {
                        let mut got = Vec::new();
                        loop {
                            match r.recv_timeout(std::time::Duration::from_millis(20)) {
                                Ok(m) => {
                                    got.push(m);
                                    std::thread::yield_now();
                                }
                                Err(crossbeam_channel::RecvTimeoutError::Disconnected) => return Ok(got),
                                Err(crossbeam_channel::RecvTimeoutError::Timeout) => {
                                    if done2.load(std::sync::atomic::Ordering::SeqCst) {
                                        // the call has returned: everything it sent is in the channel
                                        loop {
                                            match r.try_recv() {
                                                Ok(m) => got.push(m),
                                                Err(crossbeam_channel::TryRecvError::Disconnected) => return Ok(got),
                                                Err(crossbeam_channel::TryRecvError::Empty) => {
                                                    return Err("the sender handed to the channel variant is still alive after the call returned: a consumer loop over the channel would never end".into())
                                                }
                                            }
                                        }
                                    }
                                }
                            }
                        }
                    });
                    struct SetOnDrop(std::sync::Arc<std::sync::atomic::AtomicBool>);
                    impl Drop for SetOnDrop {
                        fn drop(&mut self) {
                            self.0.store(true, std::sync::atomic::Ordering::SeqCst);
                        }
                    }
                    {
                        let _g = SetOnDrop(done);
                        if matches!(c.mode, NgMode::StableBounded(_)) {
                            a.stable_nogood_channel(heu, s);
                        } else {
                            a.two_val_nogood_channel(heu, s);
                        }
                    }
                    consumer.join().map_err(|_| "consumer thread panicked".to_string())?
                }
                NgMode::StableChannel | NgMode::TwoValChannel => {
                    let (s, r) = crossbeam_channel::unbounded::<Vec<Term>>();
                    if c.mode == NgMode::StableChannel {
                        a.stable_nogood_channel(heu, s);
                    } else {
                        a.two_val_nogood_channel(heu, s);
                    }
                    let got: Vec<Vec<Term>> = r.try_iter().collect();
                    match r.try_recv() {
                        Err(crossbeam_channel::TryRecvError::Disconnected) => Ok(got),
                        Err(crossbeam_channel::TryRecvError::Empty) => Err(
                            "the sender handed to the channel variant is still alive after the call returned: a consumer loop over the channel would never end".into(),
                        ),
                        Ok(_) => Err("channel delivered a result after being drained".into()),
                    }
                }
            }
        });
        let ticks = adf_bdd::verif::nogood_ticks();
        adf_bdd::verif::nogood_reset(u64::MAX);
        let got = match run {
            Err(p) if p.contains(adf_bdd::verif::STEP_LIMIT_MSG) => {
                return Err(format!(
                    "search does not terminate: more than {limit} main-loop iterations for {n} statements (heuristic {:?}, mode {:?})",
                    c.heu, c.mode
                ))
            }
            Err(p) => return Err(format!("panic in nogood search: {p}")),
            Ok(Err(e)) => return Err(e),
            Ok(Ok(g)) => g,
        };
        let calls = if let Some(cu) = &cust {
            let g = cu.calls.lock().unwrap();
            if let Some(e) = &g.1 {
                return Err(e.clone());
            }
            g.0
        } else {
            0
        };
        cmp_multiset(
            &format!("{backend:?} nogood search ({:?}, {:?})", c.mode, c.heu),
            &perm,
            &got,
            &expected,
        )?;
        Ok((ticks, calls))
    });
    let (ticks, calls) = match res {
        Err(e) => return Err(format!("well-formed input rejected: {e}")),
        Ok(Err(e)) => return Err(e),
        Ok(Ok(x)) => x,
    };
    st.label(&format!("mode={:?}", c.mode));
    st.label(&format!(
        "heu={}",
        match &c.heu {
            Heu::Simple => "Simple",
            Heu::MinModMinPathsMaxVarImp => "MinModMinPathsMaxVarImp",
            Heu::MinModMaxVarImpMinPaths => "MinModMaxVarImpMinPaths",
            Heu::Rand(_) => "Rand",
            Heu::Tape(_) => "Custom:tape",
            Heu::HashChoice(_) => "Custom:hash",
            Heu::LastUndecided(_) => "Custom:last",
            Heu::FirstFalse => "Custom:first-false",
        }
    ));
    st.label(&format!("loop_iterations<={}", ticks.next_power_of_two()));
    st.count("max_loop_iterations_seen", 0);
    let cur = st.counters.get("max_loop_iterations_seen").copied().unwrap_or(0);
    if ticks > cur {
        st.count("max_loop_iterations_seen", ticks - cur);
    }
    if calls >= 2 {
        st.label("custom_heuristic_calls>=2");
    }
    if und >= 2 && (calls >= 2 || ticks >= 6) {
        st.nontrivial(stable_hash(&(case_hash(&c.sem), format!("{:?}{:?}", c.heu, c.mode), c.backend % 4)), || {
            json!({"text": text, "heuristic": format!("{:?}", c.heu), "mode": format!("{:?}", c.mode),
                   "expected": show_set(&expected), "loop_iterations": ticks, "custom_heuristic_calls": calls})
        });
    }
    Ok(Outcome::Ok)
}

pub fn c05(tier: Tier) -> PropSpec {
    let hi = tier.pick(6, 7);
    PropSpec {
        id: "C05",
        level: "exploration",
        rule: "generated ADF (as C01, n<=6/7) x heuristic in {Simple, MinModMinPathsMaxVarImp, MinModMaxVarImpMinPaths, \
               Rand(generated 32-byte seed), Custom: choice tape / interpretation hash / last-undecided / first-false \
               (all always propose an undecided statement)} x mode in {stable_nogood, stable_nogood_channel, \
               two_val_nogood_channel; both channel variants also with a bounded channel of capacity 0..2 drained by a consumer thread} x back-end in {native, hybrid+/-pre}. Oracle: multiset equals the stable (two-valued) models of \
               the definition; termination as a step bound (hook H1: <= 2(2n+4)(3^n+1) main-loop iterations); channel \
               variants: after the call try_recv() is Disconnected. Non-trivial: grounded leaves >= 2 statements undecided and the search \
               made >= 2 heuristic calls (custom) or >= 6 loop iterations; distinct by (ADF, heuristic, mode, back-end).",
        assumptions: vec![
            "termination is decided as a step bound via hook H1, not proved",
            "oracle::stable / two_valued implement the definitions on truth tables",
        ],
        exhaustive: false,
        parts: vec![Part::with_shrink(
            "search",
            tier.pick(150000, 2000000),
            300,
            move || {
                (sem_case(1, hi), heu_strategy(), prop_oneof![4 => Just(NgMode::StableIter), 4 => Just(NgMode::StableChannel), 4 => Just(NgMode::TwoValChannel), 1 => (0u8..3).prop_map(NgMode::StableBounded), 1 => (0u8..3).prop_map(NgMode::TwoValBounded)], 0u8..6)
                    .prop_map(|(sem, heu, mode, backend)| C05Case { sem, heu, mode, backend })
                    .boxed()
            },
            c05_check,
        ),
        // wider ADFs with tens to hundreds of (two-valued / stable) models: long runs of the learner, many nogoods
        Part::with_shrink(
            "many-models",
            tier.pick(2500, 25000),
            100,
            || {
                (sem_case_many_models(6, 9), heu_strategy(), prop_oneof![Just(NgMode::StableIter), Just(NgMode::StableChannel), Just(NgMode::TwoValChannel)], 0u8..6)
                    .prop_map(|(sem, heu, mode, backend)| C05Case { sem, heu, mode, backend })
                    .boxed()
            },
            c05_check,
        ),
        // 60..140 statements: a small cyclic core with up to 5 statements hanging off it (wide-core) or with long chains
        // hanging off it so that nearly every statement is undecided after grounding (wide-chains)
        Part::with_shrink(
            "wide-core",
            tier.pick(600, 6000),
            60,
            || {
                (sem_case_wide_core(60, 140, 5), heu_strategy(), prop_oneof![Just(NgMode::StableIter), Just(NgMode::StableChannel), Just(NgMode::TwoValChannel)], 0u8..6)
                    .prop_map(|(sem, heu, mode, backend)| C05Case { sem, heu, mode, backend })
                    .boxed()
            },
            c05_check,
        ),
        Part::with_shrink(
            "wide-chains",
            tier.pick(600, 6000),
            60,
            || {
                (sem_case_wide_chains(58, 135), heu_strategy(), prop_oneof![Just(NgMode::StableIter), Just(NgMode::StableChannel), Just(NgMode::TwoValChannel)], 0u8..6)
                    .prop_map(|(sem, heu, mode, backend)| C05Case { sem, heu, mode, backend })
                    .boxed()
            },
            c05_check,
        ),
        // thousands of learned nogoods: 11..12 self-supporting statements (2^11 / 2^12 two-valued models) and a few
        // statements computed from them
        Part::with_shrink(
            "long-runs",
            tier.pick(8, 160),
            4,
            || {
                (prop_oneof![4 => Just(11usize), 1 => Just(12usize)], proptest::collection::vec((0u8..3, any::<u16>()), 0..3), heu_strategy(), prop_oneof![2 => Just(NgMode::TwoValChannel), 1 => Just(NgMode::StableIter)], 0u8..6)
                    .prop_map(|(k, extra, heu, mode, backend)| {
                        let mut acs: Vec<F> = (0..k).map(F::Atom).collect();
                        for (kind, a) in extra {
                            let x = F::Atom(gen::pick(a, k));
                            acs.push(match kind {
                                0 => x,
                                1 => F::not(x),
                                _ => F::or(x.clone(), F::not(x)),
                            });
                        }
                        C05Case { sem: SemCase { adf: gen::AdfCase::simple(acs), sort: Sort::None }, heu, mode, backend }
                    })
                    .boxed()
            },
            c05_check,
        ),
        Box::new(Logged(Part::with_shrink(
            "search-with-logging",
            tier.pick(3000, 30000),
            200,
            || {
                (sem_case(1, 5), heu_strategy(), prop_oneof![Just(NgMode::StableIter), Just(NgMode::TwoValChannel)], 0u8..6)
                    .prop_map(|(sem, heu, mode, backend)| C05Case { sem, heu, mode, backend })
                    .boxed()
            },
            c05_check,
        ))),
        crate::props::cli::sem_cli_part("cli-stmng", &[crate::props::cli::Flag::StmNg, crate::props::cli::Flag::TwoVal], tier.pick(150, 1500)),
        crate::props::cli::wide_cli_part("cli-wide", tier.pick(16, 480))],
    }
}

#[allow(dead_code)]
pub fn atom(i: usize) -> F {
    F::Atom(i)
}
#[allow(dead_code)]
pub fn tvs(s: &str) -> Vec<Tv> {
    s.chars()
        .map(|c| match c {
            'T' => Tv::T,
            'F' => Tv::F,
            _ => Tv::U,
        })
        .collect()
}
