//! C19: streaming mirror of the node table under every schedule; C20: interpretation iterators.

use crate::bddmodel::*;
use crate::engine::*;
use adf_bdd::datatypes::adf::{ThreeValuedInterpretationsIterator, TwoValuedInterpretationsIterator};
use adf_bdd::datatypes::{BddNode, Term};
use adf_bdd::obdd::Bdd;
use proptest::prelude::*;
use serde::{Deserialize, Serialize};
use serde_json::json;
use std::collections::HashSet;

#[derive(Clone, Debug, Serialize, Deserialize, PartialEq, Eq, Hash)]
pub enum Sched {
    /// make j more messages of the producer's stream visible to the first consumer
    Deliver(u8),
    /// relay polls for handle (monotone-mapped into 0..m+4)
    PollRelay(u16),
    /// final receiver polls
    PollRecv(u16),
    /// the store behind the relay goes away (its receiver is dropped); the relay must carry on
    DropLast,
}

#[derive(Clone, Debug, Serialize, Deserialize, PartialEq, Eq, Hash)]
pub struct StreamCase {
    pub prog: Program,
    pub chain: bool,
    pub sched: Vec<Sched>,
}

fn produce(prog: &Program) -> Result<(Vec<BddNode>, Vec<BddNode>), String> {
    let (s, r) = crossbeam_channel::unbounded::<BddNode>();
    let mut sh = Shadow::with_bdd(prog.k as usize, Bdd::with_sender(s)).with_spread(prog.spread);
    for (i, op) in prog.ops.iter().enumerate() {
        sh.step(op).map_err(|e| format!("producer step {i}: {e}"))?;
    }
    let nodes = sh.bdd.nodes.clone();
    // a store without a receiver (here: the producer itself) answers a poll by what it holds
    for t in 0..nodes.len() + 3 {
        let before = sh.bdd.nodes.len();
        let ret = sh.bdd.recv(Term(t));
        if ret != (t < before) || sh.bdd.nodes.len() != before {
            return Err(format!(
                "producer (no receiver attached) holding {before} nodes: poll({t}) answered {ret}{}",
                if sh.bdd.nodes.len() != before { " and changed the table" } else { "" }
            ));
        }
    }
    let mut plain = Bdd::new();
    for t in 0..4 {
        if plain.recv(Term(t)) != (t < 2) {
            return Err(format!("fresh store without channels: poll({t}) answered {}", t >= 2));
        }
    }
    drop(sh);
    let stream: Vec<BddNode> = r.try_iter().collect();
    Ok((nodes, stream))
}

struct Mirror {
    bdd: Bdd,
    name: &'static str,
}

/// poll and check the contract; `avail` = number of nodes this store could hold if it consumed
/// everything delivered to it so far
fn poll(m: &mut Mirror, t: usize, avail: usize, final_nodes: &[BddNode]) -> Result<bool, String> {
    let before = m.bdd.nodes.len();
    let ret = m.bdd.recv(Term(t));
    let after = m.bdd.nodes.len();
    let nm = m.name;
    if after < before || after > avail {
        return Err(format!(
            "{nm}: poll({t}) changed the table from {before} to {after} nodes with only {avail} available"
        ));
    }
    if m.bdd.nodes[..] != final_nodes[..after] {
        return Err(format!(
            "{nm}: after consuming {} messages the table is not the producer's first {} nodes",
            after - 2,
            after
        ));
    }
    if ret != (t < after) {
        return Err(format!(
            "{nm}: poll({t}) answered {ret} but the table holds {after} nodes afterwards"
        ));
    }
    if ret != (t < avail) {
        return Err(format!(
            "{nm}: poll({t}) answered {ret} although {avail} nodes were in the table or the channel"
        ));
    }
    Ok(ret)
}

/// the listener hangs up in the middle of the producer's work: the producer must stay a correct store
fn producer_survives_hangup(prog: &Program, after: usize) -> Result<(), String> {
    let (s, r) = crossbeam_channel::unbounded::<BddNode>();
    let mut sh = Shadow::with_bdd(prog.k as usize, Bdd::with_sender(s)).with_spread(prog.spread);
    let mut r = Some(r);
    for (i, op) in prog.ops.iter().enumerate() {
        if i == after {
            r = None;
        }
        sh.step(op).map_err(|e| format!("producer whose listener hung up after {after} operations, step {i}: {e}"))?;
    }
    sh.invariants().map_err(|e| format!("producer whose listener hung up: {e}"))?;
    // read-only queries still work on every handle
    for (h, _, _) in &sh.issued {
        let _ = sh.bdd.paths(*h, true);
        let _ = sh.bdd.var_dependencies(*h);
    }
    drop(r);
    Ok(())
}

fn c19_check(c: &StreamCase, st: &mut Stats) -> CheckResult {
    if c.sched.iter().any(|s| matches!(s, Sched::DropLast)) && !c.prog.ops.is_empty() {
        producer_survives_hangup(&c.prog, c.sched.len() % c.prog.ops.len())?;
        st.label("producer_listener_hangup");
    }
    let (nodes, stream) = produce(&c.prog)?;
    if stream[..] != nodes[2..] {
        return Err(format!(
            "the producer sent {} messages but created {} nodes; stream must be nodes[2..] in order, each once",
            stream.len(),
            nodes.len() - 2
        ));
    }
    let m = stream.len();
    let mut partial_poll = false;
    // generated schedule (optionally through a relay)
    {
        let (s_in, r_in) = crossbeam_channel::unbounded::<BddNode>();
        let (s_mid, r_mid) = crossbeam_channel::unbounded::<BddNode>();
        // either the dedicated constructors or a plain store whose channels are set afterwards
        let setters = c.sched.len() % 3 == 1;
        let mut relay = Mirror {
            bdd: if c.chain {
                if setters {
                    let mut b = Bdd::new();
                    b.set_sender(s_mid);
                    b.set_receiver(r_in);
                    b
                } else {
                    Bdd::with_sender_receiver(s_mid, r_in)
                }
            } else {
                drop(s_mid);
                if setters {
                    let mut b = Bdd::new();
                    b.set_receiver(r_in);
                    b
                } else {
                    Bdd::with_receiver(r_in)
                }
            },
            name: if c.chain { "relay" } else { "receiver" },
        };
        let mut last = Some(Mirror {
            bdd: Bdd::with_receiver(r_mid),
            name: "receiver behind relay",
        });
        let mut delivered = 0usize;
        for s in &c.sched {
            match s {
                Sched::Deliver(j) => {
                    for _ in 0..*j {
                        if delivered < m {
                            s_in.send(stream[delivered]).map_err(|e| e.to_string())?;
                            delivered += 1;
                        }
                    }
                }
                Sched::PollRelay(t) => {
                    let t = crate::gen::pick(*t, m + 6);
                    if delivered > 0 && delivered < m && t >= relay.bdd.nodes.len() {
                        partial_poll = true;
                    }
                    poll(&mut relay, t, 2 + delivered, &nodes)?;
                }
                Sched::PollRecv(t) => {
                    if let (true, Some(l)) = (c.chain, last.as_mut()) {
                        let t = crate::gen::pick(*t, m + 6);
                        let avail = relay.bdd.nodes.len();
                        poll(l, t, avail, &nodes)?;
                    }
                }
                Sched::DropLast => {
                    if c.chain && delivered > 0 {
                        last = None;
                    }
                }
            }
        }
        // producer done: deliver the rest, drain, compare
        while delivered < m {
            s_in.send(stream[delivered]).map_err(|e| e.to_string())?;
            delivered += 1;
        }
        poll(&mut relay, m + 2, m + 2, &nodes)?; // beyond the last handle: consumes everything
        if relay.bdd.nodes != nodes {
            return Err("after draining the channel the node tables differ".into());
        }
        // the drained mirror becomes a working store: repair step, then the producer's operations again
        // (the mirror's own bookkeeping was not maintained while receiving; fix_import rebuilds it)
        if !c.chain && c.sched.len() % 2 == 0 {
            let mut mirror = Bdd::from(Vec::new());
            std::mem::swap(&mut mirror, &mut relay.bdd);
            mirror.fix_import();
            let mut sh = Shadow::with_bdd(c.prog.k as usize, mirror).with_spread(c.prog.spread);
            for (i, op) in c.prog.ops.iter().enumerate().take(12) {
                sh.step(op).map_err(|e| format!("drained mirror used as a store after fix_import, step {i}: {e}"))?;
            }
            sh.invariants().map_err(|e| format!("drained mirror used as a store after fix_import: {e}"))?;
            for (h, _, _) in &sh.issued {
                let _ = sh.bdd.var_dependencies(*h);
                let _ = sh.bdd.paths(*h, true);
            }
            st.label("mirror_used_as_store_after_fix_import");
            relay.bdd = sh.bdd;
        }
        if let (true, Some(last)) = (c.chain, last.as_mut()) {
            if m > 0 {
                let ok = poll(last, m + 1, m + 2, &nodes)?;
                if !ok {
                    return Err("receiver behind the relay did not find the last handle".into());
                }
            }
            poll(last, m + 5, m + 2, &nodes)?;
            if last.bdd.nodes != nodes {
                return Err("after draining, the receiver behind the relay differs from the producer".into());
            }
        }
    }
    // exhaustive one- and two-poll schedules for short streams
    let mut schedules = 0u64;
    if m <= 7 {
        for d1 in 0..=m {
            for d2 in d1..=m {
                for t1 in 0..m + 4 {
                    for t2 in 0..m + 4 {
                        let (s_in, r_in) = crossbeam_channel::unbounded::<BddNode>();
                        let mut rc = Mirror {
                            bdd: Bdd::with_receiver(r_in),
                            name: "receiver",
                        };
                        for n in &stream[..d1] {
                            s_in.send(*n).unwrap();
                        }
                        poll(&mut rc, t1, 2 + d1, &nodes)
                            .map_err(|e| format!("schedule deliver {d1}, poll {t1}: {e}"))?;
                        for n in &stream[d1..d2] {
                            s_in.send(*n).unwrap();
                        }
                        poll(&mut rc, t2, 2 + d2, &nodes).map_err(|e| {
                            format!("schedule deliver {d1}, poll {t1}, deliver {}, poll {t2}: {e}", d2 - d1)
                        })?;
                        schedules += 1;
                    }
                }
            }
        }
        if m >= 2 {
            partial_poll = true;
        }
    }
    st.count("exhaustive_two_poll_schedules", schedules);
    st.count("messages", m as u64);
    if c.chain {
        st.label("relay_chain");
    }
    if partial_poll {
        st.nontrivial(stable_hash(c), || {
            json!({"k": c.prog.k, "ops": c.prog.ops.iter().map(|o| format!("{o:?}")).collect::<Vec<_>>(),
                   "messages": m, "chain": c.chain, "schedule": c.sched.iter().map(|s| format!("{s:?}")).collect::<Vec<_>>()})
        });
    }
    Ok(Outcome::Ok)
}

pub fn c19_entry(c: &StreamCase, st: &mut Stats) -> CheckResult {
    c19_check(c, st)
}

/// real threads: the producer runs while the receiver polls; only the timing-independent prefix
/// invariant is checked
fn c19_threads(c: &StreamCase, st: &mut Stats) -> CheckResult {
    // `chain` selects a bounded channel here: the producer then blocks until the receiver polls
    let cap = if c.chain { Some(1 + c.sched.len() % 3) } else { None };
    let (s, r) = match cap {
        Some(n) => crossbeam_channel::bounded::<BddNode>(n),
        None => crossbeam_channel::unbounded::<BddNode>(),
    };
    let prog = c.prog.clone();
    let done = std::sync::Arc::new(std::sync::atomic::AtomicBool::new(false));
    let done2 = done.clone();
    let producer = std::thread::spawn(move || -> Result<Vec<BddNode>, String> {
        struct SetOnDrop(std::sync::Arc<std::sync::atomic::AtomicBool>);
        impl Drop for SetOnDrop {
            fn drop(&mut self) {
                self.0.store(true, std::sync::atomic::Ordering::SeqCst);
            }
        }
        let _g = SetOnDrop(done2);
        let mut sh = Shadow::with_bdd(prog.k as usize, Bdd::with_sender(s)).with_spread(prog.spread);
        for (i, op) in prog.ops.iter().enumerate() {
            sh.step(op).map_err(|e| format!("producer step {i}: {e}"))?;
            if i % 3 == 0 {
                std::thread::yield_now();
            }
        }
        Ok(sh.bdd.nodes.clone())
    });
    let mut recv = Bdd::with_receiver(r);
    let mut snaps: Vec<(usize, bool, Vec<BddNode>)> = Vec::new();
    let polls: Vec<usize> = c
        .sched
        .iter()
        .filter_map(|s| match s {
            Sched::PollRelay(t) | Sched::PollRecv(t) => Some(crate::gen::pick(*t, 40)),
            _ => None,
        })
        .collect();
    let mut i = 0usize;
    // keep polling until the producer is done (with a bounded channel it depends on us)
    while !done.load(std::sync::atomic::Ordering::SeqCst) {
        let t = if polls.is_empty() { 1_000_000 } else { polls[i % polls.len()] };
        i += 1;
        let ret = recv.recv(Term(t));
        if snaps.len() < 64 {
            snaps.push((t, ret, recv.nodes.clone()));
        }
        // guarantee progress: also ask for the next handle not yet present (a poll for a handle
        // that is already present consumes nothing, and a bounded channel would stay full)
        let next = recv.nodes.len();
        let ret = recv.recv(Term(next));
        if snaps.len() < 64 {
            snaps.push((next, ret, recv.nodes.clone()));
        }
        std::thread::yield_now();
    }
    let nodes = producer
        .join()
        .map_err(|_| "producer thread panicked".to_string())??;
    let ret = recv.recv(Term(nodes.len() + 1));
    snaps.push((nodes.len() + 1, ret, recv.nodes.clone()));
    if recv.nodes != nodes {
        return Err(format!(
            "threaded ({}): after the producer finished and the channel was drained the receiver holds {} nodes, the producer {}{}",
            match cap { Some(n) => format!("bounded channel of capacity {n}"), None => "unbounded channel".into() },
            recv.nodes.len(),
            nodes.len(),
            if recv.nodes.len() == nodes.len() { " (different content)" } else { "" }
        ));
    }
    let mut mid = false;
    for (t, ret, snap) in &snaps {
        if snap.len() > nodes.len() || snap[..] != nodes[..snap.len()] {
            return Err("threaded: a receiver snapshot is not a prefix of the producer's node table".into());
        }
        if *ret != (*t < snap.len()) {
            return Err(format!(
                "threaded: poll({t}) answered {ret} with {} nodes present afterwards",
                snap.len()
            ));
        }
        mid |= snap.len() > 2 && snap.len() < nodes.len();
    }
    if mid {
        st.label("threaded:observed_strict_prefix");
    }
    if cap.is_some() {
        st.label("threaded:bounded_channel");
    }
    if nodes.len() > 4 {
        st.nontrivial(stable_hash(c), || json!({"threaded": true, "nodes": nodes.len(), "capacity": cap}));
    }
    Ok(Outcome::Ok)
}

fn stream_case(kmax: u8, maxops: usize) -> BoxedStrategy<StreamCase> {
    (
        program(kmax, maxops, false),
        any::<bool>(),
        proptest::collection::vec(
            prop_oneof![
                3 => (0u8..5).prop_map(Sched::Deliver),
                2 => any::<u16>().prop_map(Sched::PollRelay),
                2 => any::<u16>().prop_map(Sched::PollRecv),
                1 => Just(Sched::DropLast),
            ],
            0..14,
        ),
    )
        .prop_map(|(prog, chain, sched)| StreamCase { prog, chain, sched })
        .boxed()
}

#[derive(Clone, Debug, Serialize, Deserialize, Hash)]
pub struct DeepStream {
    pub vars: u8,
    /// per variable (from the last to the first): connective (0 and, 1 or, 2 xor), polarity, skip
    pub spec: Vec<(u8, bool, bool)>,
    /// the receiver is polled after these many producer steps (handle asked: the newest / an old one / a future one)
    pub polls: Vec<(u8, u8)>,
    pub relay: bool,
}

fn deep_stream_case() -> BoxedStrategy<DeepStream> {
    (65u8..=100, proptest::collection::vec((0u8..3, any::<bool>(), proptest::bool::weighted(0.1)), 100), proptest::collection::vec((any::<u8>(), 0u8..3), 0..6), any::<bool>())
        .prop_map(|(vars, spec, polls, relay)| DeepStream { vars, spec, polls, relay })
        .boxed()
}

fn c19_deep(c: &DeepStream, st: &mut Stats) -> CheckResult {
    use adf_bdd::datatypes::Var;
    let (s, r) = crossbeam_channel::unbounded();
    let mut producer = Bdd::with_sender(s);
    let (mut mirror, mut last) = if c.relay {
        let (s2, r2) = crossbeam_channel::unbounded();
        (Bdd::with_sender_receiver(s2, r), Some(Bdd::with_receiver(r2)))
    } else {
        (Bdd::with_receiver(r), None)
    };
    let v = c.vars as usize;
    let mut acc: Option<Term> = None;
    let mut polled = 0usize;
    for (step, i) in (0..v).rev().enumerate() {
        let (con, pol, skip) = c.spec[i % c.spec.len()];
        if skip && i != 0 {
            continue;
        }
        let x = producer.variable(Var(i));
        let lit = if pol { x } else { producer.not(x) };
        acc = Some(match acc {
            None => lit,
            Some(a) => match con {
                0 => producer.and(lit, a),
                1 => producer.or(lit, a),
                _ => producer.xor(lit, a),
            },
        });
        for (at, kind) in &c.polls {
            if *at as usize % v == step {
                let n = producer.nodes.len();
                let ask = match kind {
                    0 => n - 1,
                    1 => 2 + (*at as usize) % (n - 1).max(1),
                    _ => n + 3,
                };
                let found = mirror.recv(Term(ask));
                polled += 1;
                if found != (ask < n) {
                    return Err(format!("poll for handle {ask} with {n} nodes produced: recv returned {found}"));
                }
                if mirror.nodes[..] != producer.nodes[..mirror.nodes.len()] {
                    return Err("the mirror is not a prefix of the producer's table".into());
                }
            }
        }
    }
    let n = producer.nodes.len();
    let _ = mirror.recv(Term(n + 1));
    if mirror.nodes != producer.nodes {
        return Err(format!("after taking everything the mirror has {} nodes, the producer {n}", mirror.nodes.len()));
    }
    if let Some(last) = last.as_mut() {
        if !last.recv(Term(n - 1)) && n > 2 {
            return Err("the receiver behind the relay did not find the last handle".into());
        }
        let _ = last.recv(Term(n + 1));
        if last.nodes != producer.nodes {
            return Err("the receiver behind the relay differs from the producer".into());
        }
    }
    if polled > 0 && n > 60 {
        st.nontrivial(stable_hash(c), || json!({"vars": v, "nodes": n, "polls": polled, "relay": c.relay}));
    }
    Ok(Outcome::Ok)
}


/// Large backlogs: hundreds to thousands of messages are pending when a poll happens (nothing may depend on how many
/// messages one poll has to take).
#[derive(Clone, Debug, Serialize, Deserialize, Hash)]
pub struct Backlog {
    pub vars: u16,
    /// (position in per mille of the program at which the poll happens, kind of the requested handle)
    pub polls: Vec<(u16, u8)>,
    pub relay: bool,
    pub ands: u8,
}

fn backlog_case() -> BoxedStrategy<Backlog> {
    (
        prop_oneof![2 => 505u16..530, 2 => 1020u16..1030, 1 => 200u16..4200, 1 => 4090u16..4110],
        proptest::collection::vec((0u16..1000, 0u8..4), 0..3),
        any::<bool>(),
        0u8..12,
    )
        .prop_map(|(vars, polls, relay, ands)| Backlog { vars, polls, relay, ands })
        .boxed()
}

fn c19_backlog(c: &Backlog, st: &mut Stats) -> CheckResult {
    use adf_bdd::datatypes::Var;
    let (s, r) = crossbeam_channel::unbounded();
    let mut producer = Bdd::with_sender(s);
    let (mut mirror, mut last) = if c.relay {
        let (s2, r2) = crossbeam_channel::unbounded();
        (Bdd::with_sender_receiver(s2, r), Some(Bdd::with_receiver(r2)))
    } else {
        (Bdd::with_receiver(r), None)
    };
    let v = c.vars as usize;
    let mut biggest = 0usize;
    let mut polled = 0usize;
    let mut poll = |producer: &Bdd, mirror: &mut Bdd, last: &mut Option<Bdd>, at: u16, kind: u8, which: &str| -> Result<usize, String> {
        let n = producer.nodes.len();
        let ask = match kind {
            0 => n - 1,
            1 => 2 + (at as usize * 7) % (n - 1).max(1),
            2 => n + 3,
            _ => n.saturating_sub(2).max(2),
        };
        let mut taken = 0usize;
        for (name, store) in [("the receiver", Some(&mut *mirror)), ("the receiver behind the relay", last.as_mut())] {
            let Some(store) = store else { continue };
            let before = store.nodes.len();
            let found = store.recv(Term(ask));
            // what is in the channel of the second store is what the first one has forwarded: everything it holds
            let avail = if name == "the receiver" { n } else { mirror_len_hint(before, n) };
            let _ = avail;
            let after = store.nodes.len();
            if name == "the receiver" {
                let want = if ask < n { before.max(ask + 1) } else { n };
                if after != want {
                    return Err(format!("{which}: {name} held {before} nodes, {} messages were pending, poll for handle {ask}: it holds {after} nodes afterwards, the poll contract gives {want}", n - before));
                }
                if found != (ask < n) {
                    return Err(format!("{which}: poll for handle {ask} with {n} nodes produced returned {found}"));
                }
                taken = after - before;
            } else if found != (ask < after) {
                return Err(format!("{which}: {name} answered {found} for handle {ask} and holds {after} nodes"));
            }
            if store.nodes[..] != producer.nodes[..after] {
                let first = (0..after).find(|&i| store.nodes[i] != producer.nodes[i]).unwrap_or(0);
                return Err(format!("{which}: {name} holds {after} nodes which are not the producer's first {after} (first difference at handle {first}; {before} held before the poll)"));
            }
        }
        Ok(taken)
    };
    fn mirror_len_hint(_b: usize, n: usize) -> usize {
        n
    }
    let mut handles = Vec::new();
    for i in 0..v {
        handles.push(producer.variable(Var(i)));
        if c.ands > 0 && i % 97 == 96 {
            let a = handles[i - (c.ands as usize % 90)];
            let b = handles[i];
            let x = producer.and(a, b);
            let _ = producer.or(x, handles[i - 1]);
        }
        for (at, kind) in &c.polls {
            if (*at as usize * v) / 1000 == i {
                let t = poll(&producer, &mut mirror, &mut last, *at, *kind, &format!("after {} variables", i + 1))?;
                biggest = biggest.max(t);
                polled += 1;
            }
        }
    }
    let n = producer.nodes.len();
    let t = poll(&producer, &mut mirror, &mut last, 0, 2, "at the end")?;
    biggest = biggest.max(t);
    if mirror.nodes != producer.nodes {
        return Err(format!("after taking everything the receiver has {} nodes, the producer {n}", mirror.nodes.len()));
    }
    if let Some(last) = last.as_mut() {
        let _ = last.recv(Term(n + 1));
        if last.nodes != producer.nodes {
            return Err(format!("after taking everything the receiver behind the relay has {} nodes, the producer {n}", last.nodes.len()));
        }
    }
    st.label(if biggest > 512 { "backlog>512" } else { "backlog<=512" });
    if biggest > 1024 {
        st.label("backlog>1024");
    }
    if biggest >= 300 {
        st.nontrivial(stable_hash(c), || json!({"nodes": n, "polls": polled + 1, "largest_backlog_taken_by_one_poll": biggest, "relay": c.relay}));
    }
    Ok(Outcome::Ok)
}

pub fn c19(tier: Tier) -> PropSpec {
    PropSpec {
        id: "C19",
        level: "exploration",
        rule: "producer = generated operation sequence on Bdd::with_sender; the harness forwards the recorded message stream to a \
               receiver (optionally through a with_sender_receiver relay) following a generated schedule of (deliver j messages | poll \
               relay for t | poll receiver for t) - the receiver only observes channel contents, so prefix cuts are all observable \
               interleavings, also inside one operation. After every poll: table == producer's first len nodes, return value iff \
               handle present afterwards iff handle was in table-or-channel; stream == nodes[2..]; after draining tables identical; the store behind a relay may be dropped mid-stream (the relay must carry on), and a producer whose listener hangs up mid-program must stay a correct store. \
               For streams of <= 7 messages all one- and two-poll schedules x all requested handles are enumerated exhaustively. \
               Part 'threads' runs the producer in a real thread (unbounded or bounded channel of capacity 1..3, where the producer blocks until the receiver polls) against a concurrently polling receiver: prefix invariant at every poll, identical tables at the end. \
               Part 'backlog': 200..4200 messages pending when a poll happens (sizes around 512, 1024, 4096), direct and through a relay: poll contract, prefix invariant, final equality. Non-trivial: a poll with 0 < delivered < total asking for a handle not yet present.",
        assumptions: vec![
            "unbounded crossbeam channel: the producer never blocks, so the set of observable interleavings equals the set of prefix cuts",
        ],
        exhaustive: false,
        parts: vec![
            Part::new("schedules", tier.pick(20000, 200000), || stream_case(5, 30), c19_check),
            Part::new("short-exhaustive", tier.pick(6000, 60000), || stream_case(3, 4), c19_check),
            Part::new("threads", tier.pick(800, 8000), || stream_case(5, 40), c19_threads),
            // diagrams over 65..100 variables (long chains: children of very different depth, variable indices beyond one machine word)
            Part::new("deep-stream", tier.pick(1500, 15000), deep_stream_case, c19_deep),
            // hundreds to thousands of pending messages taken by one poll
            Part::new("backlog", tier.pick(600, 6000), backlog_case, c19_backlog),
            // the streaming frontend under every cargo feature set that has it (probe binaries of C12): the mirror must
            // reproduce the producer's table in every build, builds without the frontend replay the node list
            Part::with_shrink("feature-lanes", tier.pick(250, 2500), 200, crate::props::features::probe_stream_case, crate::props::features::c12_check_entry),
        ],
    }
}

// ------------------------------------------------------------------------------------------
// C20

fn to_terms(v: &[u8]) -> Vec<Term> {
    v.iter()
        .enumerate()
        .map(|(i, &x)| match x {
            0 => Term::BOT,
            1 => Term::TOP,
            // arbitrary handles >= 2 stand for "undecided"
            _ => Term(2 + (x as usize - 2) * 7 + i),
        })
        .collect()
}

fn c20_check(v: &Vec<u8>, st: &mut Stats) -> CheckResult {
    let input = to_terms(v);
    let und: Vec<usize> = (0..input.len())
        .filter(|&i| !input[i].is_truth_value())
        .collect();
    let k = und.len() as u32;
    // two-valued
    let mut it = TwoValuedInterpretationsIterator::new(&input);
    let two: Vec<Vec<Term>> = it.by_ref().collect();
    if it.next().is_some() {
        return Err("two-valued iterator yields again after exhaustion".into());
    }
    if two.len() as u64 != 1u64 << k {
        return Err(format!("two-valued iterator yielded {} items for k={k}", two.len()));
    }
    let mut seen = HashSet::new();
    for item in &two {
        if item.len() != input.len() {
            return Err("two-valued: item of wrong length".into());
        }
        for i in 0..input.len() {
            if input[i].is_truth_value() {
                if item[i] != input[i] {
                    return Err(format!("two-valued: decided position {i} altered"));
                }
            } else if !item[i].is_truth_value() {
                return Err(format!("two-valued: position {i} left undecided"));
            }
        }
        if !seen.insert(item.clone()) {
            return Err(format!("two-valued: completion {item:?} yielded twice"));
        }
    }
    if k == 0 && two[0] != input {
        return Err("two-valued: a total interpretation is not yielded as itself".into());
    }
    // three-valued
    let mut it = ThreeValuedInterpretationsIterator::new(&input);
    let three: Vec<Vec<Term>> = it.by_ref().collect();
    if it.next().is_some() {
        return Err("three-valued iterator yields again after exhaustion".into());
    }
    if three.len() as u64 != 3u64.pow(k) {
        return Err(format!("three-valued iterator yielded {} items for k={k}", three.len()));
    }
    if three[0] != input {
        return Err("three-valued: first item is not the interpretation itself".into());
    }
    let mut seen = HashSet::new();
    for item in &three {
        if item.len() != input.len() {
            return Err("three-valued: item of wrong length".into());
        }
        for i in 0..input.len() {
            if input[i].is_truth_value() {
                if item[i] != input[i] {
                    return Err(format!("three-valued: decided position {i} altered"));
                }
            } else if !(item[i].is_truth_value() || item[i] == input[i]) {
                return Err(format!("three-valued: position {i} holds a foreign handle"));
            }
        }
        if !seen.insert(item.clone()) {
            return Err(format!("three-valued: refinement {item:?} yielded twice"));
        }
    }
    let nt = k >= 2
        && (und[0] == 0 && *und.last().unwrap() == input.len() - 1
            || und.iter().any(|&i| i > 0 && input[i - 1].is_truth_value()));
    if nt {
        st.nontrivial(stable_hash(v), || json!({"vector": v, "k": k}));
    }
    Ok(Outcome::Ok)
}

fn all_vectors(maxlen: usize) -> Box<dyn Iterator<Item = Vec<u8>>> {
    Box::new((0..=maxlen).flat_map(|len| {
        (0..3usize.pow(len as u32)).map(move |mut x| {
            (0..len)
                .map(|_| {
                    let d = (x % 3) as u8;
                    x /= 3;
                    d
                })
                .collect::<Vec<u8>>()
        })
    }))
}

/// long vectors with many undecided positions: the iterators are lazy, so the first items must be
/// right (and nothing may overflow) however large 2^k / 3^k is
fn c20_lazy(v: &Vec<u8>, st: &mut Stats) -> CheckResult {
    let input = to_terms(v);
    let und: Vec<usize> = (0..input.len()).filter(|&i| !input[i].is_truth_value()).collect();
    let k = und.len();
    let two: Vec<Vec<Term>> = TwoValuedInterpretationsIterator::new(&input).take(6).collect();
    let three: Vec<Vec<Term>> = ThreeValuedInterpretationsIterator::new(&input).take(6).collect();
    let want2 = if k >= 3 { 6 } else { (1usize << k).min(6) };
    let want3 = if k >= 2 { 6 } else { 3usize.pow(k as u32).min(6) };
    if two.len() != want2 {
        return Err(format!("two-valued iterator yielded only {} of the first {want2} completions for k={k}", two.len()));
    }
    if three.len() != want3 {
        return Err(format!("three-valued iterator yielded only {} of the first {want3} refinements for k={k}", three.len()));
    }
    if three[0] != input {
        return Err("three-valued: first item is not the interpretation itself".into());
    }
    for (name, items, total) in [("two-valued", &two, true), ("three-valued", &three, false)] {
        let mut seen = HashSet::new();
        for item in items.iter() {
            if item.len() != input.len() {
                return Err(format!("{name}: item of wrong length"));
            }
            for i in 0..input.len() {
                if input[i].is_truth_value() {
                    if item[i] != input[i] {
                        return Err(format!("{name}: decided position {i} altered (k={k})"));
                    }
                } else if total && !item[i].is_truth_value() {
                    return Err(format!("{name}: position {i} left undecided"));
                } else if !total && !(item[i].is_truth_value() || item[i] == input[i]) {
                    return Err(format!("{name}: position {i} holds a foreign handle"));
                }
            }
            if !seen.insert(item.clone()) {
                return Err(format!("{name}: item yielded twice among the first {}", items.len()));
            }
        }
    }
    if k >= 41 {
        st.label("k>=41");
    }
    if k >= 64 {
        st.label("k>=64");
    }
    if k >= 10 {
        st.nontrivial(stable_hash(v), || json!({"length": v.len(), "undecided": k}));
    }
    Ok(Outcome::Ok)
}


/// Every way of consuming an iterator must see the same sequence: `j` items through `next()`, the rest through one of the
/// standard consumers (which an implementation may override: fold, for_each, count, last, nth, collect into other containers).
#[derive(Clone, Debug, Serialize, Deserialize, Hash)]
pub struct ConsumeCase {
    pub v: Vec<u8>,
    pub j: u8,
    pub style: u8,
    pub three: bool,
}

fn consume_rest<I: Iterator<Item = Vec<Term>>>(mut it: I, style: u8, expect_rest: usize) -> Result<Vec<Vec<Term>>, String> {
    let (lo, hi) = it.size_hint();
    if lo > expect_rest || hi.map(|h| h < expect_rest).unwrap_or(false) {
        return Err(format!("size_hint ({lo}, {hi:?}) is wrong: {expect_rest} items remain"));
    }
    Ok(match style % 10 {
        0 => it.collect(),
        1 => {
            let mut out = Vec::new();
            it.for_each(|x| out.push(x));
            out
        }
        2 => it.fold(Vec::new(), |mut acc, x| {
            acc.push(x);
            acc
        }),
        3 => {
            // count() must equal the number of remaining items; the items themselves through a second pass are not
            // available, so only the number is compared (signalled by an empty marker list of that length)
            let n = it.count();
            if n != expect_rest {
                return Err(format!("count() = {n} but {expect_rest} items remain"));
            }
            return Err(String::new());
        }
        4 => {
            let mut out = Vec::new();
            while let Some(x) = it.nth(0) {
                out.push(x);
            }
            out
        }
        5 => it.filter(|_| true).collect(),
        6 => it.map(|x| x).collect::<std::collections::VecDeque<_>>().into_iter().collect(),
        7 => {
            // skip one through nth(1) every other time
            let mut out = Vec::new();
            let mut idx = 0usize;
            loop {
                match it.nth(1) {
                    Some(x) => {
                        out.push((idx + 1, x));
                        idx += 2;
                    }
                    None => break,
                }
            }
            // compare only the odd positions
            return Err(format!("ODD:{}", serde_json::to_string(&out.iter().map(|(i, x)| (*i, x.iter().map(|t| t.value()).collect::<Vec<_>>())).collect::<Vec<_>>()).unwrap()));
        }
        8 => {
            let l = it.last();
            return Err(format!("LAST:{}", serde_json::to_string(&l.map(|x| x.iter().map(|t| t.value()).collect::<Vec<_>>())).unwrap()));
        }
        _ => {
            let mut out = Vec::new();
            for x in it.by_ref().take(2) {
                out.push(x);
            }
            it.for_each(|x| out.push(x));
            out
        }
    })
}

fn c20_consume(c: &ConsumeCase, st: &mut Stats) -> CheckResult {
    let input = to_terms(&c.v);
    let reference: Vec<Vec<Term>> = if c.three {
        let mut it = ThreeValuedInterpretationsIterator::new(&input);
        let mut r = Vec::new();
        while let Some(x) = it.next() {
            r.push(x);
        }
        r
    } else {
        let mut it = TwoValuedInterpretationsIterator::new(&input);
        let mut r = Vec::new();
        while let Some(x) = it.next() {
            r.push(x);
        }
        r
    };
    let j = (c.j as usize).min(reference.len());
    let name = if c.three { "three-valued" } else { "two-valued" };
    let mut head = Vec::new();
    let rest = if c.three {
        let mut it = ThreeValuedInterpretationsIterator::new(&input);
        for _ in 0..j {
            head.push(it.next().ok_or("iterator ended early")?);
        }
        consume_rest(it, c.style, reference.len() - j)
    } else {
        let mut it = TwoValuedInterpretationsIterator::new(&input);
        for _ in 0..j {
            head.push(it.next().ok_or("iterator ended early")?);
        }
        consume_rest(it, c.style, reference.len() - j)
    };
    if head[..] != reference[..j] {
        return Err(format!("{name}: a second iterator over the same interpretation yields other first items"));
    }
    let val = |x: &Vec<Term>| x.iter().map(|t| t.value()).collect::<Vec<_>>();
    match rest {
        Ok(rest) => {
            if rest[..] != reference[j..] {
                return Err(format!(
                    "{name} iterator over {:?}: after {j} next() calls, consuming the rest in style {} yields {:?} but stepping with next() yields {:?}",
                    c.v,
                    c.style % 10,
                    rest.iter().map(val).collect::<Vec<_>>(),
                    reference[j..].iter().map(val).collect::<Vec<_>>()
                ));
            }
        }
        Err(e) if e.is_empty() => {}
        Err(e) if e.starts_with("ODD:") => {
            let want: Vec<(usize, Vec<usize>)> = reference[j..].iter().enumerate().filter(|(i, _)| i % 2 == 1).map(|(i, x)| (i, val(x))).collect();
            if e[4..] != serde_json::to_string(&want).unwrap() {
                return Err(format!("{name} iterator over {:?}: after {j} next() calls, nth(1) steps yield {} but next() gives {:?}", c.v, &e[4..], want));
            }
        }
        Err(e) if e.starts_with("LAST:") => {
            let want = if j < reference.len() { reference.last().map(val) } else { None };
            if e[5..] != serde_json::to_string(&want).unwrap() {
                return Err(format!("{name} iterator over {:?}: after {j} next() calls, last() = {} but next() gives {:?}", c.v, &e[5..], want));
            }
        }
        Err(e) => return Err(format!("{name} iterator over {:?} after {j} next() calls: {e}", c.v)),
    }
    st.label(&format!("style={}", c.style % 10));
    if j >= 2 && reference.len() - j >= 3 {
        st.nontrivial(stable_hash(c), || json!({"vector": c.v, "next_calls_before": j, "style": c.style % 10, "three_valued": c.three}));
    }
    Ok(Outcome::Ok)
}

/// vectors longer than 2^16 entries with the undecided positions around and beyond index 65536
fn c20_long(c: &(u32, Vec<u32>), st: &mut Stats) -> CheckResult {
    let len = c.0 as usize;
    let mut input: Vec<Term> = (0..len).map(|i| if i % 3 == 0 { Term::TOP } else { Term::BOT }).collect();
    let mut und: Vec<usize> = c.1.iter().map(|d| len - 1 - (*d as usize % len)).collect();
    und.sort();
    und.dedup();
    for (n, &i) in und.iter().enumerate() {
        input[i] = Term(2 + n * 5);
    }
    let k = und.len() as u32;
    for three in [false, true] {
        let name = if three { "three-valued" } else { "two-valued" };
        let items: Vec<Vec<Term>> = if three {
            ThreeValuedInterpretationsIterator::new(&input).collect()
        } else {
            TwoValuedInterpretationsIterator::new(&input).collect()
        };
        let want = if three { 3usize.pow(k) } else { 1usize << k };
        if items.len() != want {
            return Err(format!("{name} iterator over {len} entries with undecided positions {und:?} yielded {} items instead of {want}", items.len()));
        }
        if three && items[0] != input {
            return Err(format!("{name}: first item is not the interpretation itself (length {len}, undecided {und:?})"));
        }
        let mut seen = HashSet::new();
        for item in &items {
            if item.len() != len {
                return Err(format!("{name}: item of wrong length"));
            }
            let mut key = Vec::new();
            for i in 0..len {
                if input[i].is_truth_value() {
                    if item[i] != input[i] {
                        return Err(format!("{name}: decided position {i} altered (length {len}, undecided {und:?})"));
                    }
                } else {
                    if !(item[i].is_truth_value() || (three && item[i] == input[i])) {
                        return Err(format!("{name}: position {i} holds {:?} (length {len}, undecided {und:?})", item[i]));
                    }
                    key.push(item[i]);
                }
            }
            if !seen.insert(key) {
                return Err(format!("{name}: an item is yielded twice (length {len}, undecided {und:?})"));
            }
        }
    }
    if len > 65536 && und.iter().any(|&i| i >= 65536) && k >= 1 {
        st.nontrivial(stable_hash(c), || json!({"length": len, "undecided": und}));
    }
    Ok(Outcome::Ok)
}

pub fn c20(tier: Tier) -> PropSpec {
    let maxlen = tier.pick(7, 9);
    PropSpec {
        id: "C20",
        level: "exploration",
        rule: "exhaustive: every vector over {bot, top, undecided} of length 0..=7 (thorough 9); generated: lengths <= 14 with <= 9 \
               undecided positions holding arbitrary distinct handles. Two-valued iterator: exactly 2^k items, pairwise distinct, decided \
               positions untouched, others decided; three-valued: exactly 3^k, distinct, each position kept or decided, first item == input; \
               next() after exhaustion stays None. Part lazy-large: lengths 10..140 with up to ~100 undecided positions, the first 6 items of both iterators (laziness: nothing may depend on 2^k / 3^k fitting a machine word). Part consumption: after j next() calls the rest is consumed through collect / for_each / fold / count / nth / last / filter / by_ref+take and must be the sequence next() yields (size_hint must bracket the remaining number). Part longer-than-2^16: vectors of 65530..131090 entries with undecided positions at and beyond index 65536. Non-trivial: k >= 2 with undecided positions at both ends or next to a decided one.",
        assumptions: vec![],
        exhaustive: true,
        parts: vec![
            EnumPart::new("exhaustive", move || all_vectors(maxlen), c20_check),
            Part::new(
                "generated",
                tier.pick(30000, 300000),
                || {
                    proptest::collection::vec(prop_oneof![2 => 0u8..2, 1 => 2u8..6], 0..15)
                        .prop_map(|mut v| {
                            // at most 9 undecided
                            let mut u = 0;
                            for x in v.iter_mut() {
                                if *x >= 2 {
                                    u += 1;
                                    if u > 9 {
                                        *x = 1;
                                    }
                                }
                            }
                            v
                        })
                        .boxed()
                },
                c20_check,
            ),
            Box::new(Logged(EnumPart::new("exhaustive-with-logging", || all_vectors(5), c20_check))),
            Part::new(
                "consumption",
                tier.pick(40000, 400000),
                || {
                    (proptest::collection::vec(prop_oneof![1 => 0u8..2, 2 => 2u8..6], 0..8), 0u8..30, any::<u8>(), any::<bool>())
                        .prop_map(|(mut v, j, style, three)| {
                            let mut u = 0;
                            for x in v.iter_mut() {
                                if *x >= 2 {
                                    u += 1;
                                    if u > 5 {
                                        *x = 0;
                                    }
                                }
                            }
                            ConsumeCase { v, j, style, three }
                        })
                        .boxed()
                },
                c20_consume,
            ),
            Part::new(
                "longer-than-2^16",
                tier.pick(160, 1600),
                || (prop_oneof![3 => 65530u32..65560, 1 => 131060u32..131090, 1 => 70000u32..70010], proptest::collection::vec(prop_oneof![3 => 0u32..12, 1 => 0u32..70000], 0..4)).boxed(),
                c20_long,
            ),
            Part::new(
                "lazy-large",
                tier.pick(3000, 30000),
                || proptest::collection::vec(prop_oneof![1 => 0u8..2, 3 => 2u8..6], 10..140).boxed(),
                c20_lazy,
            ),
        ],
    }
}
