//! One spec per property.
use crate::engine::{PropSpec, Tier};

pub mod bdd;
pub mod cli;
pub mod compile;
pub mod counts;
pub mod features;
pub mod history;
pub mod nogood;
pub mod parser;
pub mod races;
pub mod sem;
pub mod stream;
pub mod users;
pub mod web;

pub fn spec(id: &str, tier: Tier) -> Option<PropSpec> {
    Some(match id {
        "C01" => sem::c01(tier),
        "C02" => sem::c02(tier),
        "C03" => sem::c03(tier),
        "C04" => sem::c04(tier),
        "C05" => sem::c05(tier),
        "C06" => bdd::c06(tier),
        "C07" => bdd::c07(tier),
        "C08" => parser::c08(tier),
        "C09" => compile::c09(tier),
        "C10" => compile::c10(tier),
        "C11" => history::c11(tier),
        "C12" => features::c12(tier),
        "C13" => counts::c13(tier),
        "C14" => history::c14(tier),
        "C15" => cli::c15(tier),
        "C16" => web::c16(tier),
        "C17" => users::c17(tier),
        "C18" => nogood::c18(tier),
        "C19" => stream::c19(tier),
        "C20" => stream::c20(tier),
        _ => return None,
    })
}
