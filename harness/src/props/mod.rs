//! One spec per property.
use crate::engine::{PropSpec, Tier};

pub mod sem;

pub fn spec(id: &str, tier: Tier) -> Option<PropSpec> {
    Some(match id {
        "C01" => sem::c01(tier),
        "C02" => sem::c02(tier),
        "C03" => sem::c03(tier),
        "C04" => sem::c04(tier),
        "C05" => sem::c05(tier),
        _ => return None,
    })
}
