//! C17: user isolation and credential handling of the web service (model-based, request histories).

use crate::engine::*;
use crate::props::web::{poll_slot, server, Strat, STRATEGIES};
use crate::srvkit::http::{Client, Jar, Response};
use proptest::prelude::*;
use serde::{Deserialize, Serialize};
use serde_json::{json, Value};
use std::collections::{BTreeMap, BTreeSet, HashSet};
use std::sync::atomic::{AtomicU64, Ordering};
use std::sync::Mutex;

#[derive(Clone, Debug, Serialize, Deserialize, PartialEq, Eq, Hash)]
pub enum Step {
    Register { p: u8, u: u8, w: u8 },
    Login { p: u8, u: u8, w: u8 },
    Logout { p: u8 },
    Update { p: u8, u: u8, w: u8 },
    DeleteAccount { p: u8 },
    Info { p: u8 },
    Add { p: u8, name: u8, hybrid: bool },
    Solve { p: u8, name: u8, strat: u8 },
    Get { p: u8, name: u8 },
    List { p: u8 },
    DeleteProblem { p: u8, name: u8 },
    /// add a problem whose Complete solve takes long, start solving it and do NOT wait: the task
    /// is in flight while other persons act
    SlowSolve { p: u8, name: u8 },
}

impl Step {
    pub fn person(&self) -> usize {
        (match self {
            Step::Register { p, .. }
            | Step::Login { p, .. }
            | Step::Logout { p }
            | Step::Update { p, .. }
            | Step::DeleteAccount { p }
            | Step::Info { p }
            | Step::Add { p, .. }
            | Step::Solve { p, .. }
            | Step::Get { p, .. }
            | Step::List { p }
            | Step::DeleteProblem { p, .. }
            | Step::SlowSolve { p, .. } => *p,
        }) as usize
    }
}

#[derive(Clone, Debug, Serialize, Deserialize)]
pub struct UserCase {
    pub persons: u8,
    pub steps: Vec<Step>,
}

#[derive(Clone, Debug)]
struct Prob {
    code: String,
    solved: BTreeSet<Strat>,
}

#[derive(Clone, Debug)]
struct Account {
    owner: usize,
    password: Option<String>,
    problems: BTreeMap<String, Prob>,
}

static RUN: AtomicU64 = AtomicU64::new(0);
static SALTS: Mutex<Option<HashSet<String>>> = Mutex::new(None);

pub const PROBLEM_NAMES: [&str; 3] = ["pa", "pb", "pc"];

struct World<'a> {
    pre: String,
    cl: Client,
    srv: &'a crate::srvkit::Server,
    jars: Vec<Jar>,
    accounts: BTreeMap<String, Account>,
    session: Vec<Option<String>>,
    counter: u64,
    passwords_seen: Vec<String>,
    /// solve tasks started without waiting: (person, problem name, strategy)
    inflight: Vec<(usize, String, Strat)>,
}

impl<'a> World<'a> {
    fn uname(&self, u: u8) -> String {
        // one of the three account names ends with a blank (legal, must be kept verbatim everywhere)
        format!("{}{}", self.pre, ["ua", "ub ", "uc"][(u % 3) as usize])
    }
    /// person-specific passwords; index 2 = almost another person's password (never valid), 3 = empty
    fn pw(&self, p: usize, w: u8) -> String {
        if w >= 4 {
            // long passwords that only differ after byte 80 (and one that is the bare common prefix)
            let base = format!("Long-{}-{p}-", self.pre);
            let common = format!("{base}{}", "x".repeat(80usize.saturating_sub(base.len())));
            return match w % 3 {
                0 => format!("{common}-tail-A"),
                1 => format!("{common}-tail-B"),
                _ => common,
            };
        }
        match w % 4 {
            0 => format!("Secret-{}-{p}-alpha", self.pre),
            1 => format!("Secret-{}-{p}-beta", self.pre),
            // never set by anyone: another person's password with a trailing blank
            2 => format!("Secret-{}-{}-alpha ", self.pre, (p + 1) % 3),
            _ => String::new(),
        }
    }
    fn marker(&self, p: usize) -> String {
        format!("{}m{p}x", self.pre)
    }

    /// isolation, independent of the model: no marker of another person in a response to p
    fn check_markers(&self, p: usize, r: &Response, what: &str) -> Result<(), String> {
        let body = r.text();
        for other in 0..3 {
            if other != p && body.contains(&self.marker(other)) {
                return Err(format!(
                    "{what}: the response to person {p} contains data of person {other}: {}",
                    body.chars().take(300).collect::<String>()
                ));
            }
        }
        Ok(())
    }

    fn check_db(&mut self, after: &str) -> Result<(), String> {
        // problems: owner's current account name
        let probs = self.srv.stub.snapshot("adf-obdd.adf-problems");
        let mut seen: BTreeSet<(String, String)> = BTreeSet::new();
        for d in &probs {
            let code = d.get_str("code").unwrap_or("");
            if !code.contains(&self.pre) {
                continue; // another case's data
            }
            let uname = d.get_str("username").unwrap_or("").to_string();
            let pname = d.get_str("name").unwrap_or("").to_string();
            match self.accounts.get(&uname).and_then(|a| a.problems.get(&pname)) {
                Some(p) if p.code == code => {
                    if !seen.insert((uname.clone(), pname.clone())) {
                        return Err(format!("after {after}: two stored problems {pname:?} for account {uname:?}"));
                    }
                }
                _ => {
                    return Err(format!(
                        "after {after}: the database holds problem {pname:?} (code {code:?}) under account {uname:?}, which does not own it in the reference model"
                    ))
                }
            }
        }
        for (u, a) in &self.accounts {
            for pn in a.problems.keys() {
                if !seen.contains(&(u.clone(), pn.clone())) {
                    return Err(format!("after {after}: problem {pn:?} of account {u:?} is missing from the database"));
                }
            }
        }
        // users: stored credential
        let users = self.srv.stub.snapshot("adf-obdd.users");
        for (u, a) in &self.accounts {
            let docs: Vec<_> = users.iter().filter(|d| d.get_str("username") == Ok(u.as_str())).collect();
            if docs.len() != 1 {
                return Err(format!("after {after}: {} user documents for account {u:?}", docs.len()));
            }
            let stored = match docs[0].get("password") {
                None | Some(bson::Bson::Null) => None,
                Some(bson::Bson::String(s)) => Some(s.clone()),
                Some(other) => return Err(format!("stored password has type {:?}", other.element_type())),
            };
            match (&a.password, stored) {
                (None, None) => {}
                (Some(pw), Some(h)) => {
                    let parts: Vec<&str> = h.split('$').collect();
                    if !h.starts_with("$argon2") || parts.len() != 6 || parts[4].len() < 8 || parts[5].len() < 16 {
                        return Err(format!("after {after}: stored credential of {u:?} is not a salted argon2 hash: {h:?}"));
                    }
                    for seen_pw in self.passwords_seen.iter().chain(std::iter::once(pw)) {
                        if !seen_pw.is_empty() && h.contains(seen_pw.as_str()) {
                            return Err(format!("after {after}: stored credential of {u:?} contains a plaintext password"));
                        }
                    }
                }
                (m, s) => {
                    return Err(format!(
                        "after {after}: account {u:?} is {} in the model but stored password is {}",
                        if m.is_some() { "permanent" } else { "temporary" },
                        if s.is_some() { "set" } else { "absent" }
                    ))
                }
            }
        }
        for d in &users {
            let u = d.get_str("username").unwrap_or("");
            if u.starts_with(&self.pre) && !self.accounts.contains_key(u) {
                return Err(format!("after {after}: user document {u:?} exists but the account was deleted / never created"));
            }
        }
        Ok(())
    }

    fn note_salt(&self, uname: &str) -> Result<(), String> {
        let users = self.srv.stub.snapshot("adf-obdd.users");
        if let Some(d) = users.iter().find(|d| d.get_str("username") == Ok(uname)) {
            if let Ok(h) = d.get_str("password") {
                let parts: Vec<&str> = h.split('$').collect();
                if parts.len() == 6 {
                    let mut g = SALTS.lock().unwrap();
                    let set = g.get_or_insert_with(HashSet::new);
                    if !set.insert(parts[4].to_string()) {
                        return Err(format!("salt {:?} was used for an earlier credential: hashes are not freshly salted", parts[4]));
                    }
                }
            }
        }
        Ok(())
    }
}

fn expect_status(r: &Response, ok: bool, what: &str) -> Result<(), String> {
    let is_ok = (200..300).contains(&r.status);
    if is_ok != ok {
        return Err(format!(
            "{what}: status {} ({}) but the reference model expects {}",
            r.status,
            r.text().chars().take(160).collect::<String>(),
            if ok { "success" } else { "a refusal" }
        ));
    }
    Ok(())
}

fn c17_check(c: &UserCase, st: &mut Stats) -> CheckResult {
    let srv = server()?;
    let run = RUN.fetch_add(1, Ordering::SeqCst);
    let mut w = World {
        pre: format!("c17r{}x{}q", std::process::id(), run),
        cl: srv.client(),
        srv,
        jars: vec![Jar::default(), Jar::default(), Jar::default()],
        accounts: BTreeMap::new(),
        session: vec![None, None, None],
        counter: 0,
        passwords_seen: Vec::new(),
        inflight: Vec::new(),
    };
    let persons = (c.persons as usize).clamp(2, 3);
    let mut same_name_two_owners = false;
    let mut cross_after_change = false;
    let mut changed_by: Option<usize> = None;
    let mut foreign_inflight_seen = false;
    for (i, step) in c.steps.iter().enumerate() {
        let p = step.person() % persons;
        let what = format!("step {i} {step:?} (person {p}, session {:?})", w.session[p]);
        if let Some(q) = changed_by {
            if q != p {
                cross_after_change = true;
            }
        }
        // a person first waits for the tasks it started itself; other persons do not wait
        let mine: Vec<(usize, String, Strat)> = w.inflight.iter().filter(|x| x.0 == p).cloned().collect();
        for (_, pname, s) in mine {
            poll_slot(&w.cl, &mut w.jars[p], &pname, s.slot(), &json!({"type": "Solve", "content": s.name()}))?;
            if let Some(id) = w.session[p].clone() {
                if let Some(pr) = w.accounts.get_mut(&id).and_then(|a| a.problems.get_mut(&pname)) {
                    pr.solved.insert(s);
                }
            }
            w.inflight.retain(|x| !(x.0 == p && x.1 == pname));
        }
        match step {
            Step::SlowSolve { name, .. } => {
                let pname = PROBLEM_NAMES[(*name % 3) as usize].to_string();
                let Some(id) = w.session[p].clone() else {
                    continue; // only for logged-in persons (anonymous adds are covered by Add)
                };
                if w.accounts[&id].problems.contains_key(&pname) {
                    continue;
                }
                w.counter += 1;
                let m = format!("{}{}", w.marker(p), w.counter);
                let k = 9;
                let mut code = format!("s({m}).ac({m},c(v)).");
                for i in 0..k {
                    code.push_str(&format!("s(y{i}).ac(y{i},neg(y{})).", (i + 1) % k));
                }
                let r = w.cl.multipart(&mut w.jars[p], "/adf/add", &[("name", &pname), ("code", &code), ("parsing", "Naive")])?;
                expect_status(&r, true, &what)?;
                w.accounts.get_mut(&id).unwrap().problems.insert(pname.clone(), Prob { code, solved: BTreeSet::new() });
                poll_slot(&w.cl, &mut w.jars[p], &pname, "parse_only", &json!({"type": "Parse"}))?;
                let r = w.cl.json(&mut w.jars[p], "PUT", &format!("/adf/{pname}/solve"), &json!({"strategy": "Complete"}))?;
                expect_status(&r, true, &what)?;
                w.inflight.push((p, pname.clone(), Strat::Complete));
                // while the task is in flight every other person looks at its own data
                for q in 0..persons {
                    if q == p || w.session[q].is_none() || w.inflight.iter().any(|x| x.0 == q) {
                        continue;
                    }
                    let qid = w.session[q].clone().unwrap();
                    let l = w.cl.get(&mut w.jars[q], "/adf/")?;
                    w.check_markers(q, &l, &what)?;
                    if l.status == 200 {
                        for x in l.json()?.as_array().ok_or("list is not an array")? {
                            if x["name"] == json!(pname) {
                                foreign_inflight_seen = true;
                            }
                            if x["running_tasks"].as_array().map(|a| !a.is_empty()).unwrap_or(true) {
                                return Err(format!(
                                    "{what}: while person {p} solves its problem {pname:?}, the listing of person {q} ({qid}) shows running tasks {} for its own problem {}",
                                    x["running_tasks"], x["name"]
                                ));
                            }
                        }
                    }
                    if w.accounts[&qid].problems.contains_key(&pname) {
                        let g = w.cl.get(&mut w.jars[q], &format!("/adf/{pname}"))?;
                        w.check_markers(q, &g, &what)?;
                        if g.status == 200 && g.json()?["running_tasks"].as_array().map(|a| !a.is_empty()).unwrap_or(true) {
                            return Err(format!(
                                "{what}: while person {p} solves its problem {pname:?}, person {q} ({qid}) is told that a task is running on its own problem of the same name"
                            ));
                        }
                    }
                }
            }
            Step::Register { u, w: pwi, .. } => {
                // own passwords (or the empty one) only: a person never sets a password another person uses
                let (un, pw) = (w.uname(*u), w.pw(p, if *pwi == 2 { 0 } else { *pwi }));
                let r = w.cl.json(&mut w.jars[p], "POST", "/users/register", &json!({"username": un, "password": pw}))?;
                let ok = !pw.is_empty() && !w.accounts.contains_key(&un);
                expect_status(&r, ok, &what)?;
                w.check_markers(p, &r, &what)?;
                if ok {
                    w.passwords_seen.push(pw.clone());
                    w.accounts.insert(un.clone(), Account { owner: p, password: Some(pw), problems: BTreeMap::new() });
                    w.note_salt(&un)?;
                }
            }
            Step::Login { u, w: pwi, .. } => {
                let (un, pw) = (w.uname(*u), w.pw(p, *pwi));
                let r = w.cl.json(&mut w.jars[p], "POST", "/users/login", &json!({"username": un, "password": pw}))?;
                let ok = !pw.is_empty() && w.accounts.get(&un).map(|a| a.password.as_deref() == Some(pw.as_str())).unwrap_or(false);
                if ok != (200..300).contains(&r.status) {
                    return Err(format!(
                        "{what}: login {} although the supplied password {} the one most recently set for the account",
                        if ok { "was refused" } else { "succeeded" },
                        if ok { "is" } else { "is not" }
                    ));
                }
                w.check_markers(p, &r, &what)?;
                if ok {
                    w.session[p] = Some(un);
                }
            }
            Step::Logout { .. } => {
                let r = w.cl.delete(&mut w.jars[p], "/users/logout")?;
                let ok = match &w.session[p] {
                    None => false,
                    Some(id) => w.accounts.get(id).map(|a| a.password.is_some()).unwrap_or(false),
                };
                expect_status(&r, ok, &what)?;
                if ok {
                    w.session[p] = None;
                }
            }
            Step::Update { u, w: pwi, .. } => {
                let (un, pw) = (w.uname(*u), w.pw(p, if *pwi == 2 { 1 } else { *pwi }));
                let r = w.cl.json(&mut w.jars[p], "PUT", "/users/update", &json!({"username": un, "password": pw}))?;
                let ok = match &w.session[p] {
                    None => false,
                    Some(id) => !pw.is_empty() && (un == *id || !w.accounts.contains_key(&un)),
                };
                expect_status(&r, ok, &what)?;
                w.check_markers(p, &r, &what)?;
                if ok {
                    let id = w.session[p].clone().unwrap();
                    let mut acc = w.accounts.remove(&id).ok_or("model: session without account")?;
                    acc.password = Some(pw.clone());
                    w.passwords_seen.push(pw);
                    w.accounts.insert(un.clone(), acc);
                    w.session[p] = Some(un.clone());
                    w.note_salt(&un)?;
                    let v = r.json()?;
                    if v["username"] != json!(un) || v["temp"] != json!(false) {
                        return Err(format!("{what}: update answered {v}"));
                    }
                    changed_by = Some(p);
                }
            }
            Step::DeleteAccount { .. } => {
                let r = w.cl.delete(&mut w.jars[p], "/users/delete")?;
                let ok = w.session[p].is_some();
                expect_status(&r, ok, &what)?;
                if ok {
                    let id = w.session[p].take().unwrap();
                    w.accounts.remove(&id);
                    changed_by = Some(p);
                }
            }
            Step::Info { .. } => {
                let r = w.cl.get(&mut w.jars[p], "/users/info")?;
                let ok = w.session[p].is_some();
                expect_status(&r, ok, &what)?;
                w.check_markers(p, &r, &what)?;
                if ok {
                    let id = w.session[p].clone().unwrap();
                    let v = r.json()?;
                    let temp = w.accounts[&id].password.is_none();
                    if v["username"] != json!(id) || v["temp"] != json!(temp) {
                        return Err(format!("{what}: info answered {v}, expected username {id:?} temp {temp}"));
                    }
                }
            }
            Step::Add { name, hybrid, .. } => {
                let pname = if *name % 4 == 3 { String::new() } else { PROBLEM_NAMES[(*name % 4) as usize].to_string() };
                w.counter += 1;
                let m = format!("{}{}", w.marker(p), w.counter);
                let code = format!("s({m}).ac({m},c(v)).s(a).s(b).ac(a,neg(b)).ac(b,neg(a)).");
                let was_anonymous = w.session[p].is_none();
                let ok = match &w.session[p] {
                    None => true,
                    Some(id) => pname.is_empty() || !w.accounts[id].problems.contains_key(&pname),
                };
                let r = w.cl.multipart(
                    &mut w.jars[p],
                    "/adf/add",
                    &[("name", &pname), ("code", &code), ("parsing", if *hybrid { "Hybrid" } else { "Naive" })],
                )?;
                expect_status(&r, ok, &what)?;
                w.check_markers(p, &r, &what)?;
                if ok {
                    if was_anonymous {
                        // a temporary account was created and logged in; learn its name
                        let info = w.cl.get(&mut w.jars[p], "/users/info")?;
                        if info.status != 200 {
                            return Err(format!("{what}: anonymous add did not log in a temporary user (info: {})", info.status));
                        }
                        let v = info.json()?;
                        let tname = v["username"].as_str().ok_or("info without username")?.to_string();
                        if v["temp"] != json!(true) {
                            return Err(format!("{what}: the account created by an anonymous add is not temporary"));
                        }
                        if w.accounts.contains_key(&tname) {
                            return Err(format!("{what}: temporary user got the name of an existing account {tname:?}"));
                        }
                        w.accounts.insert(tname.clone(), Account { owner: p, password: None, problems: BTreeMap::new() });
                        w.session[p] = Some(tname);
                    }
                    let id = w.session[p].clone().unwrap();
                    // learn a generated name from the listing
                    let real_name = if pname.is_empty() {
                        let l = w.cl.get(&mut w.jars[p], "/adf/")?.json()?;
                        let names: Vec<String> = l
                            .as_array()
                            .ok_or("list is not an array")?
                            .iter()
                            .filter(|x| x["code"] == json!(code))
                            .map(|x| x["name"].as_str().unwrap_or("").to_string())
                            .collect();
                        if names.len() != 1 || names[0].is_empty() {
                            return Err(format!("{what}: the unnamed problem is listed {} times", names.len()));
                        }
                        names[0].clone()
                    } else {
                        pname.clone()
                    };
                    w.accounts.get_mut(&id).unwrap().problems.insert(real_name.clone(), Prob { code, solved: BTreeSet::new() });
                    // wait for the parse task so that later steps are deterministic
                    poll_slot(&w.cl, &mut w.jars[p], &real_name, "parse_only", &json!({"type": "Parse"}))?;
                    // same problem name owned by two persons?
                    let owners: BTreeSet<usize> = w
                        .accounts
                        .values()
                        .filter(|a| a.problems.contains_key(&real_name))
                        .map(|a| a.owner)
                        .collect();
                    if owners.len() >= 2 {
                        same_name_two_owners = true;
                    }
                }
            }
            Step::Solve { name, strat, .. } => {
                let pname = PROBLEM_NAMES[(*name % 3) as usize];
                let s = STRATEGIES[(*strat as usize) % STRATEGIES.len()];
                let r = w.cl.json(&mut w.jars[p], "PUT", &format!("/adf/{pname}/solve"), &json!({"strategy": s.name()}))?;
                let ok = match &w.session[p] {
                    None => false,
                    Some(id) => w.accounts[id].problems.get(pname).map(|pr| !pr.solved.contains(&s)).unwrap_or(false),
                };
                expect_status(&r, ok, &what)?;
                w.check_markers(p, &r, &what)?;
                if w.session[p].is_none() && r.status != 401 {
                    return Err(format!("{what}: unauthenticated solve answered {}", r.status));
                }
                if ok {
                    let id = w.session[p].clone().unwrap();
                    poll_slot(&w.cl, &mut w.jars[p], pname, s.slot(), &json!({"type": "Solve", "content": s.name()}))?;
                    w.accounts.get_mut(&id).unwrap().problems.get_mut(pname).unwrap().solved.insert(s);
                }
            }
            Step::Get { name, .. } => {
                let pname = PROBLEM_NAMES[(*name % 3) as usize];
                let r = w.cl.get(&mut w.jars[p], &format!("/adf/{pname}"))?;
                let prob = w.session[p].as_ref().and_then(|id| w.accounts[id].problems.get(pname));
                expect_status(&r, prob.is_some(), &what)?;
                w.check_markers(p, &r, &what)?;
                if w.session[p].is_none() && r.status != 401 {
                    return Err(format!("{what}: unauthenticated get answered {}", r.status));
                }
                if let Some(pr) = prob {
                    let v = r.json()?;
                    if w.inflight.iter().any(|x| x.0 != p && x.1 == pname) {
                        foreign_inflight_seen = true;
                    }
                    if v["running_tasks"].as_array().map(|a| !a.is_empty()).unwrap_or(true) {
                        return Err(format!(
                            "{what}: the response lists running tasks {} although this person has no task in flight (tasks in flight: {:?})",
                            v["running_tasks"], w.inflight
                        ));
                    }
                    if v["code"] != json!(pr.code) || v["name"] != json!(pname) {
                        return Err(format!("{what}: returned problem is not the person's own ({})", v["code"]));
                    }
                    for s in STRATEGIES {
                        let filled = v["acs_per_strategy"][s.slot()]["type"] == "Some";
                        if filled != pr.solved.contains(&s) {
                            return Err(format!("{what}: slot {} filled = {filled}, but the person {} solve it", s.slot(), if filled { "never asked to" } else { "did" }));
                        }
                    }
                }
            }
            Step::List { .. } => {
                let r = w.cl.get(&mut w.jars[p], "/adf/")?;
                expect_status(&r, w.session[p].is_some(), &what)?;
                w.check_markers(p, &r, &what)?;
                match &w.session[p] {
                    None => {
                        if r.status != 401 {
                            return Err(format!("{what}: unauthenticated list answered {}", r.status));
                        }
                    }
                    Some(id) => {
                        let v = r.json()?;
                        for x in v.as_array().ok_or("list is not an array")? {
                            if w.inflight.iter().any(|f| f.0 != p && Some(f.1.as_str()) == x["name"].as_str()) {
                                foreign_inflight_seen = true;
                            }
                            if x["running_tasks"].as_array().map(|a| !a.is_empty()).unwrap_or(true) {
                                return Err(format!(
                                    "{what}: the listing shows running tasks {} for problem {} although this person has no task in flight (tasks in flight: {:?})",
                                    x["running_tasks"], x["name"], w.inflight
                                ));
                            }
                        }
                        let got: BTreeMap<String, String> = v
                            .as_array()
                            .ok_or("list is not an array")?
                            .iter()
                            .map(|x| (x["name"].as_str().unwrap_or("").to_string(), x["code"].as_str().unwrap_or("").to_string()))
                            .collect();
                        let exp: BTreeMap<String, String> = w.accounts[id].problems.iter().map(|(k, v)| (k.clone(), v.code.clone())).collect();
                        if got != exp || v.as_array().map(|a| a.len()) != Some(exp.len()) {
                            return Err(format!(
                                "{what}: listing shows {:?} but the person's own problems are {:?}",
                                got.keys().collect::<Vec<_>>(),
                                exp.keys().collect::<Vec<_>>()
                            ));
                        }
                    }
                }
            }
            Step::DeleteProblem { name, .. } => {
                let pname = PROBLEM_NAMES[(*name % 3) as usize];
                let r = w.cl.delete(&mut w.jars[p], &format!("/adf/{pname}"))?;
                let ok = w.session[p].as_ref().map(|id| w.accounts[id].problems.contains_key(pname)).unwrap_or(false);
                expect_status(&r, ok, &what)?;
                w.check_markers(p, &r, &what)?;
                if ok {
                    let id = w.session[p].clone().unwrap();
                    w.accounts.get_mut(&id).unwrap().problems.remove(pname);
                }
            }
        }
        w.check_db(&what)?;
    }
    // wait for everything still in flight
    let rest = w.inflight.clone();
    for (p, pname, s) in rest {
        poll_slot(&w.cl, &mut w.jars[p], &pname, s.slot(), &json!({"type": "Solve", "content": s.name()}))?;
    }
    if foreign_inflight_seen {
        st.label("get/list_same_name_while_other_person_solves");
    }
    st.count("http_histories", 1);
    st.count("steps", c.steps.len() as u64);
    if same_name_two_owners {
        st.label("same_problem_name_two_owners");
    }
    if cross_after_change {
        st.label("rename/delete_then_other_person");
    }
    if same_name_two_owners || cross_after_change {
        st.nontrivial(stable_hash(&(&c.steps, c.persons)), || json!({"persons": persons, "steps": c.steps.iter().map(|s| format!("{s:?}")).collect::<Vec<_>>()}));
    }
    Ok(Outcome::Ok)
}

pub fn step_strategy() -> BoxedStrategy<Step> {
    let p = || 0u8..3;
    let u = || 0u8..3;
    let w = || prop_oneof![5 => 0u8..2, 1 => Just(2u8), 1 => Just(3u8), 2 => 4u8..7];
    let n = || 0u8..3;
    prop_oneof![
        4 => (p(), u(), w()).prop_map(|(p, u, w)| Step::Register { p, u, w }),
        4 => (p(), u(), w()).prop_map(|(p, u, w)| Step::Login { p, u, w }),
        1 => p().prop_map(|p| Step::Logout { p }),
        3 => (p(), u(), w()).prop_map(|(p, u, w)| Step::Update { p, u, w }),
        1 => p().prop_map(|p| Step::DeleteAccount { p }),
        1 => p().prop_map(|p| Step::Info { p }),
        5 => (p(), 0u8..4, any::<bool>()).prop_map(|(p, name, hybrid)| Step::Add { p, name, hybrid }),
        2 => (p(), n(), 0u8..6).prop_map(|(p, name, strat)| Step::Solve { p, name, strat }),
        3 => (p(), n()).prop_map(|(p, name)| Step::Get { p, name }),
        3 => p().prop_map(|p| Step::List { p }),
        2 => (p(), n()).prop_map(|(p, name)| Step::DeleteProblem { p, name }),
        2 => (p(), n()).prop_map(|(p, name)| Step::SlowSolve { p, name }),
    ]
    .boxed()
}


/// Account names of hundreds to thousands of bytes: registration, login with the right and a wrong password, account
/// information, renaming to another long name (the login clause of the property for names of any length).
fn c17_long_names(c: &(u16, u16, u8), st: &mut Stats) -> CheckResult {
    let srv = server()?;
    let run = RUN.fetch_add(1, Ordering::SeqCst);
    let cl = srv.client();
    let pre = format!("c17L{}x{}q", std::process::id(), run);
    let name = |len: u16, fill: char| -> String {
        let mut s = pre.clone();
        while s.len() < len as usize {
            s.push(fill);
        }
        s
    };
    let (n1, n2) = (name(c.0, 'n'), name(c.1, 'm'));
    let pw = format!("Secret-{pre}-alpha");
    let mut jar = Jar::default();
    let r = cl.json(&mut jar, "POST", "/users/register", &json!({"username": n1, "password": pw}))?;
    if r.status != 200 {
        // a service may refuse long names: then nothing of the account may exist
        let mut j2 = Jar::default();
        let l = cl.json(&mut j2, "POST", "/users/login", &json!({"username": n1, "password": pw}))?;
        if (200..300).contains(&l.status) {
            return Err(format!("registration of a {}-byte name was refused with {} but the login succeeds", n1.len(), r.status));
        }
        st.label("long-name:refused");
        return Ok(Outcome::Ok);
    }
    let mut outcome = Outcome::Ok;
    let mut login = |nm: &str, what: &str, jar: &mut Jar| -> Result<Option<Outcome>, String> {
        let wrong = cl.json(&mut Jar::default(), "POST", "/users/login", &json!({"username": nm, "password": format!("{pw}x")}))?;
        if (200..300).contains(&wrong.status) {
            return Err(format!("{what}: a wrong password is accepted for an account with a {}-byte name", nm.len()));
        }
        let l = cl.json(jar, "POST", "/users/login", &json!({"username": nm, "password": pw}))?;
        if (200..300).contains(&l.status) {
            let i = cl.get(jar, "/users/info")?;
            if i.status != 200 || i.json()?["username"] != json!(nm) {
                return Err(format!("{what}: logged in with a {}-byte name but /users/info answers {} {}", nm.len(), i.status, i.text().chars().take(80).collect::<String>()));
            }
            return Ok(None);
        }
        // K9 probe: exactly the known signature (internal error on a login with the right password, name beyond 3800 bytes)
        if l.status == 500 && nm.len() > 3800 {
            return Ok(Some(crate::known::known_or_fail(
                "K9-long-user-name-cannot-log-in",
                format!("{what}: the account with a {}-byte name was registered (200) but the login with the password set answers {} {}", nm.len(), l.status, l.text().chars().take(80).collect::<String>()),
            )?));
        }
        Err(format!("{what}: the login with the password most recently set answers {} {} (name of {} bytes)", l.status, l.text().chars().take(80).collect::<String>(), nm.len()))
    };
    let mut j = Jar::default();
    if let Some(o) = login(&n1, "after registration", &mut j)? {
        outcome = o;
    } else if c.2 % 2 == 0 {
        // rename to the second long name and log in again
        let u = cl.json(&mut j, "PUT", "/users/update", &json!({"username": n2, "password": pw}))?;
        if u.status == 200 {
            let mut j3 = Jar::default();
            if let Some(o) = login(&n2, "after renaming", &mut j3)? {
                outcome = o;
            }
            let old = cl.json(&mut Jar::default(), "POST", "/users/login", &json!({"username": n1, "password": pw}))?;
            if (200..300).contains(&old.status) {
                return Err("after renaming, the old long name still logs in".into());
            }
            let _ = cl.delete(&mut j3, "/users/delete");
        }
    }
    let _ = cl.delete(&mut j, "/users/delete");
    st.label(if c.0 > 4000 || c.1 > 4000 { "long-name:>4000 bytes" } else { "long-name:<=4000 bytes" });
    st.nontrivial(stable_hash(c), || json!({"name_bytes": [n1.len(), n2.len()]}));
    Ok(outcome)
}

pub fn c17(tier: Tier) -> PropSpec {
    PropSpec {
        id: "C17",
        level: "exploration",
        rule: "request histories of 5..40 steps by 2-3 persons (one cookie jar each) over register / login / logout / update(name, \
               password) / delete-account / info / add (named, unnamed, anonymous -> temporary user) / solve / get / list / \
               delete-problem, with account names and problem names from pools of 3 (collisions, renames onto freed names, \
               re-registration) and person-specific passwords (plus never-valid, empty and > 80-byte ones differing only in their tail), against the real server binary and the \
               MongoDB stub. A reference model (accounts with owner, password most recently set, temp flag, problems; one session \
               identity per person) predicts success/refusal and body of every response (own problems exactly, own code, 401 for \
               unauthenticated access, login succeeds iff password == most recently set and account not temporary). Model-free: a \
               per-person marker in every problem code must never appear in a response to another person. After EVERY step the stub \
               database is inspected: every problem document belongs to its model owner's current account name; stored credentials \
               are absent (temporary) or argon2 PHC strings containing no plaintext password, with a never-seen-before salt. \
               Interleaving is at request granularity, plus long-running solve tasks left in flight while other persons act (no response to a person without a task in flight may list a running task). Non-trivial: two persons own problems with the same name, or a rename / \
               account deletion is followed by another person's request.",
        assumptions: vec![
            "each person uses passwords no other person uses, so a session identity always denotes an account the person owns (shared accounts are outside this check; sessions that outlive their account are generated by the model-free part second-session)",
            "request-granularity interleavings only; races inside one request are not explored in this tier",
            "'salted hash' is checked by format, non-containment and salt freshness",
        ],
        exhaustive: false,
        parts: vec![Part::with_shrink(
            "histories",
            tier.pick(250, 3000),
            80,
            || {
                // single steps, interspersed with a 'reclaim' template: p owns account u, renames it to u2
                // (or deletes it), q registers the freed name u, then p tries its OLD credentials on u
                let template = (0u8..3, 0u8..3, 0u8..3, any::<bool>()).prop_map(|(p, u, u2, delete)| {
                    let q = (p + 1) % 3;
                    let u2 = if u2 == u { (u + 1) % 3 } else { u2 };
                    vec![
                        Step::Register { p, u, w: 0 },
                        Step::Login { p, u, w: 0 },
                        if delete { Step::DeleteAccount { p } } else { Step::Update { p, u: u2, w: 0 } },
                        Step::Register { p: q, u, w: 1 },
                        Step::Login { p, u, w: 0 },
                        Step::List { p },
                        Step::Login { p: q, u, w: 1 },
                        Step::List { p: q },
                    ]
                });
                (
                    2u8..4,
                    proptest::collection::vec(prop_oneof![12 => step_strategy().prop_map(|s| vec![s]), 1 => template], 5..36),
                )
                    .prop_map(|(persons, chunks)| UserCase { persons, steps: chunks.into_iter().flatten().take(48).collect() })
                    .boxed()
            },
            c17_check,
        ),
        crate::props::races::paused_part(tier),
        crate::props::races::two_session_part(tier),
        Part::with_shrink(
            "long-names",
            tier.pick(32, 320),
            10,
            || (prop_oneof![1 => 60u16..300, 2 => 3000u16..4000, 2 => 4001u16..4300, 1 => 6000u16..9000], prop_oneof![1 => 60u16..300, 1 => 3900u16..4300], any::<u8>()).boxed(),
            c17_long_names,
        )],
    }
}
