//! Shadow model of a diagram store: every issued handle is mapped to the truth table the
//! operation *names*; the real store is only read through `walk` over the public node table.

use crate::gen::pick;
use crate::sut;
use adf_bdd::datatypes::{BddNode, Term, Var};
use adf_bdd::obdd::Bdd;
use proptest::prelude::*;
use serde::{Deserialize, Serialize};
use std::collections::HashMap;

pub type Table = Vec<u64>;

#[derive(Clone, Debug, Serialize, Deserialize, PartialEq, Eq, Hash)]
pub enum Op {
    Var(u8),
    Const(bool),
    Not(u16),
    And(u16, u16),
    Or(u16, u16),
    Imp(u16, u16),
    Iff(u16, u16),
    Xor(u16, u16),
    Restrict(u16, u8, bool),
    /// order-respecting `node(var, lo, hi)`: var is drawn below both children's top variables
    Node(u8, u16, u16),
    /// serde JSON round trip + fix_import replaces the store
    Serde,
    /// `Bdd::from(nodes.clone())` replaces the store
    Rebuild,
    /// the documented custom import: `Adf::from((VarContainer, Bdd::from(nodes), acs))`, store taken back out
    AdfNodeList,
    /// serde JSON round trip of a whole `Adf` holding the store + `Adf::fix_import`
    AdfSerde,
    /// `Bdd::fix_import()` on the live store (the repair step must be harmless at any time)
    FixImport,
    /// serde JSON round trip where the repair step is only called in builds in which it does
    /// something (as the CLI's --import does): with neither `variablelist` nor `adhoccounting` the
    /// deserialised store is used as it is
    SerdeNoFix,
    /// `Bdd::from` on the node list WITHOUT the two constants (what the channel frontend transmits)
    RebuildStream,
    /// serde JSON round trip in which only a part of the unique-table entries (`cache`) survives (a state
    /// stripped / written by another tool), then fix_import. The store may lose sharing from here on
    /// (only generated for C07: functions must stay right, handles need not be canonical any more).
    SerdePartialCache(u16),
}

#[derive(Clone, Debug, Serialize, Deserialize, PartialEq, Eq, Hash)]
pub struct Program {
    pub k: u8,
    pub ops: Vec<Op>,
    /// how the k logical variables are spread over the library's variable indices
    /// (0 = 0..k; others leave gaps and cross the 64 / 128 / 2^16 / 2^32 boundaries)
    #[serde(default)]
    pub spread: u8,
}

/// library variable index of logical variable i (strictly increasing in i)
pub fn varmap(k: usize, spread: u8) -> Vec<usize> {
    (0..k)
        .map(|i| match spread % 7 {
            0 => i,
            1 => [0usize, 1, 63, 64, 65, 127, 128, 200, 201, 300][i.min(9)] + i.saturating_sub(9) * 7,
            2 => i * 33,
            3 => 60 + i * 2,
            // indices around the 16 / 32 bit boundaries and far beyond (a variable is a machine word)
            5 => [65534usize, 65535, 65536, 65537, (1 << 32) - 2, (1 << 32) - 1, 1 << 32, (1 << 32) + 1, 1 << 40, 1 << 48][i.min(9)] + i.saturating_sub(9) * 5,
            6 => [3usize, 255, 256, 1 << 20, (1 << 31) + 1, 1 << 33, (1 << 33) + 64, 1 << 52, (1 << 53) + 1, 1 << 62][i.min(9)] + i.saturating_sub(9) * 3,
            _ => [5usize, 70, 71, 135, 136, 137, 260, 261, 262, 263][i.min(9)] + i.saturating_sub(9) * 3,
        })
        .collect()
}

pub fn op_strategy(rematerialise: bool) -> BoxedStrategy<Op> {
    let h = || any::<u16>();
    let base = prop_oneof![
        4 => any::<u8>().prop_map(Op::Var),
        1 => any::<bool>().prop_map(Op::Const),
        3 => h().prop_map(Op::Not),
        5 => (h(), h()).prop_map(|(a, b)| Op::And(a, b)),
        5 => (h(), h()).prop_map(|(a, b)| Op::Or(a, b)),
        3 => (h(), h()).prop_map(|(a, b)| Op::Imp(a, b)),
        3 => (h(), h()).prop_map(|(a, b)| Op::Iff(a, b)),
        3 => (h(), h()).prop_map(|(a, b)| Op::Xor(a, b)),
        5 => (h(), any::<u8>(), any::<bool>()).prop_map(|(a, v, b)| Op::Restrict(a, v, b)),
        2 => (any::<u8>(), h(), h()).prop_map(|(v, a, b)| Op::Node(v, a, b)),
    ];
    if rematerialise {
        prop_oneof![
            30 => base,
            1 => Just(Op::Serde),
            1 => Just(Op::Rebuild),
            1 => Just(Op::AdfNodeList),
            1 => Just(Op::AdfSerde),
            1 => Just(Op::FixImport),
            1 => Just(Op::SerdeNoFix),
            1 => Just(Op::RebuildStream),
        ]
        .boxed()
    } else {
        base.boxed()
    }
}

pub fn program(kmax: u8, maxops: usize, rematerialise: bool) -> BoxedStrategy<Program> {
    (
        1..=kmax,
        proptest::collection::vec(op_strategy(rematerialise), 1..=maxops),
        prop_oneof![4 => Just(0u8), 1 => 1u8..7],
    )
        .prop_map(|(k, ops, spread)| Program { k, ops, spread })
        .boxed()
}

/// programs for C07 in which imports with a partial unique table occur (the store may be non-canonical afterwards)
pub fn program_partial_import(kmax: u8, maxops: usize) -> BoxedStrategy<Program> {
    let op = prop_oneof![
        12 => op_strategy(true),
        1 => any::<u16>().prop_map(Op::SerdePartialCache),
    ];
    (1..=kmax, proptest::collection::vec(op, 2..=maxops), prop_oneof![4 => Just(0u8), 1 => 1u8..7])
        .prop_map(|(k, ops, spread)| Program { k, ops, spread })
        .boxed()
}

pub fn rows(k: usize) -> usize {
    1usize << k
}
fn words(k: usize) -> usize {
    rows(k).div_ceil(64)
}
fn last_mask(k: usize) -> u64 {
    if rows(k) >= 64 {
        u64::MAX
    } else {
        (1u64 << rows(k)) - 1
    }
}

pub fn t_const(k: usize, b: bool) -> Table {
    let mut t = vec![if b { u64::MAX } else { 0 }; words(k)];
    let l = t.len() - 1;
    t[l] &= last_mask(k);
    t
}
pub fn t_var(k: usize, v: usize) -> Table {
    let mut t = vec![0u64; words(k)];
    for a in 0..rows(k) {
        if (a >> v) & 1 == 1 {
            t[a / 64] |= 1 << (a % 64);
        }
    }
    t
}
pub fn t_get(t: &Table, a: usize) -> bool {
    (t[a / 64] >> (a % 64)) & 1 == 1
}
pub fn t_not(k: usize, a: &Table) -> Table {
    let mut t: Table = a.iter().map(|w| !w).collect();
    let l = t.len() - 1;
    t[l] &= last_mask(k);
    t
}
pub fn t_bin(a: &Table, b: &Table, f: impl Fn(u64, u64) -> u64, k: usize) -> Table {
    let mut t: Table = a.iter().zip(b.iter()).map(|(x, y)| f(*x, *y)).collect();
    let l = t.len() - 1;
    t[l] &= last_mask(k);
    t
}
pub fn t_restrict(k: usize, a: &Table, v: usize, val: bool) -> Table {
    let mut t = vec![0u64; words(k)];
    for r in 0..rows(k) {
        let src = if val { r | (1 << v) } else { r & !(1 << v) };
        if v < k && t_get(a, src) || v >= k && t_get(a, r) {
            t[r / 64] |= 1 << (r % 64);
        }
    }
    t
}
pub fn t_ite(k: usize, v: usize, hi: &Table, lo: &Table) -> Table {
    let mut t = vec![0u64; words(k)];
    for r in 0..rows(k) {
        let b = if (r >> v) & 1 == 1 { t_get(hi, r) } else { t_get(lo, r) };
        if b {
            t[r / 64] |= 1 << (r % 64);
        }
    }
    t
}
pub fn t_count(t: &Table) -> u64 {
    t.iter().map(|w| w.count_ones() as u64).sum()
}
/// semantic support of a table
pub fn t_support(k: usize, t: &Table) -> Vec<usize> {
    (0..k)
        .filter(|&v| t_restrict(k, t, v, true) != t_restrict(k, t, v, false))
        .collect()
}

#[derive(Default, Debug, Clone)]
pub struct StepInfo {
    pub result: Option<Term>,
    pub created_nodes: usize,
    pub canonicity_hit: bool,
    pub overlapping_binary: bool,
    pub deep_restrict: bool,
    pub rematerialised: bool,
    pub partial_import: bool,
}

pub struct Shadow {
    pub k: usize,
    pub bdd: Bdd,
    /// every handle issued so far, with the truth table its defining operation names and the
    /// index of the op that first produced it
    pub issued: Vec<(Term, Table, usize)>,
    pub by_table: HashMap<Table, Term>,
    pub by_handle: HashMap<Term, Table>,
    pub step_no: usize,
    /// logical variable -> library variable index
    pub vm: Vec<usize>,
    /// set once a state with an incomplete unique table was imported: equal functions may have several handles
    pub degraded: bool,
}

pub fn top_var(bdd: &Bdd, t: Term) -> usize {
    bdd.nodes[t.value()].var().value()
}

impl Shadow {
    pub fn new(k: usize) -> Self {
        Self::with_bdd(k, Bdd::new())
    }
    pub fn with_bdd(k: usize, bdd: Bdd) -> Self {
        let mut s = Shadow {
            k,
            bdd,
            issued: Vec::new(),
            by_table: HashMap::new(),
            by_handle: HashMap::new(),
            step_no: 0,
            vm: (0..k).collect(),
            degraded: false,
        };
        s.record(Term::BOT, t_const(k, false)).unwrap();
        s.record(Term::TOP, t_const(k, true)).unwrap();
        s
    }

    /// C06 I4: same handle iff same function
    fn record(&mut self, h: Term, t: Table) -> Result<bool, String> {
        let mut hit = false;
        if self.degraded {
            // only: one handle, one function
            if let Some(pt) = self.by_handle.get(&h) {
                if *pt != t {
                    return Err(format!("handle {} was issued for two different Boolean functions", h.value()));
                }
                return Ok(true);
            }
            self.by_table.insert(t.clone(), h);
            self.by_handle.insert(h, t.clone());
            self.issued.push((h, t, self.step_no));
            return Ok(false);
        }
        if let Some(prev) = self.by_table.get(&t) {
            if *prev != h {
                return Err(format!(
                    "canonicity: handles {} and {} denote the same Boolean function",
                    prev.value(),
                    h.value()
                ));
            }
            hit = true;
        }
        if let Some(pt) = self.by_handle.get(&h) {
            if *pt != t {
                return Err(format!(
                    "canonicity: handle {} was issued for two different Boolean functions",
                    h.value()
                ));
            }
        }
        self.by_table.insert(t.clone(), h);
        self.by_handle.insert(h, t.clone());
        if !hit {
            self.issued.push((h, t, self.step_no));
        }
        Ok(hit)
    }

    pub fn operand(&self, i: u16) -> (Term, &Table) {
        let e = &self.issued[pick(i, self.issued.len())];
        (e.0, &e.1)
    }

    /// the function really stored for `h`, read by walking the node table
    pub fn with_spread(mut self, spread: u8) -> Self {
        self.vm = varmap(self.k, spread);
        self
    }

    /// logical index of a library variable (k for the constants' sentinels / unknown variables)
    fn logical(&self, actual: usize) -> usize {
        self.vm.iter().position(|&a| a == actual).unwrap_or(self.k)
    }

    pub fn walked(&self, h: Term) -> Result<Table, String> {
        if self.vm.iter().enumerate().all(|(i, &a)| i == a) {
            return sut::table_of(&self.bdd, h, self.k);
        }
        let rows = rows(self.k);
        let mut out = vec![0u64; rows.div_ceil(64)];
        for a in 0..rows {
            if sut::walk(&self.bdd, h, &|v| match self.vm.iter().position(|&x| x == v) {
                Some(i) => (a >> i) & 1 == 1,
                None => false,
            })? {
                out[a / 64] |= 1 << (a % 64);
            }
        }
        Ok(out)
    }

    /// Execute one op on the real store and on the model. Checks (C07) that the result denotes the
    /// named function and that no previously issued handle changed its function, and (C06 I4)
    /// handle equality iff function equality. Structural invariants are checked by `invariants`.
    pub fn step(&mut self, op: &Op) -> Result<StepInfo, String> {
        self.step_no += 1;
        let k = self.k;
        let before_nodes = self.bdd.nodes.clone();
        let mut info = StepInfo::default();
        if self.degraded && matches!(op, Op::Rebuild | Op::RebuildStream | Op::AdfNodeList) {
            // replaying a node list is only defined for lists without duplicates
            return Ok(info);
        }
        let (res, table): (Term, Table) = match op {
            Op::Var(v) => {
                let v = (*v as usize) % k;
                (self.bdd.variable(Var(self.vm[v])), t_var(k, v))
            }
            Op::Const(b) => (Bdd::constant(*b), t_const(k, *b)),
            Op::Not(a) => {
                let (h, t) = self.operand(*a);
                let t = t_not(k, t);
                (self.bdd.not(h), t)
            }
            Op::And(a, b) | Op::Or(a, b) | Op::Imp(a, b) | Op::Iff(a, b) | Op::Xor(a, b) => {
                let (ha, ta) = self.operand(*a);
                let (hb, tb) = self.operand(*b);
                let sa = t_support(k, ta);
                let sb = t_support(k, tb);
                info.overlapping_binary =
                    !sa.is_empty() && !sb.is_empty() && sa.iter().any(|v| sb.contains(v)) && ha != hb;
                let (ta, tb) = (ta.clone(), tb.clone());
                match op {
                    Op::And(..) => (self.bdd.and(ha, hb), t_bin(&ta, &tb, |x, y| x & y, k)),
                    Op::Or(..) => (self.bdd.or(ha, hb), t_bin(&ta, &tb, |x, y| x | y, k)),
                    Op::Imp(..) => (self.bdd.imp(ha, hb), t_bin(&ta, &tb, |x, y| !x | y, k)),
                    Op::Iff(..) => (self.bdd.iff(ha, hb), t_bin(&ta, &tb, |x, y| !(x ^ y), k)),
                    _ => (self.bdd.xor(ha, hb), t_bin(&ta, &tb, |x, y| x ^ y, k)),
                }
            }
            Op::Restrict(a, v, val) => {
                let (h, t) = self.operand(*a);
                // variables 0..k plus one that never occurs
                let v = (*v as usize) % (k + 1);
                let sup = t_support(k, t);
                info.deep_restrict = sup.contains(&v) && sup.first() != Some(&v);
                let t = t_restrict(k, t, v, *val);
                // the extra index k stands for a variable that never occurs (just above / between the used ones)
                let actual = if v < k { self.vm[v] } else { self.vm[k - 1] + 1 };
                (self.bdd.restrict(h, Var(actual), *val), t)
            }
            Op::Node(v, lo, hi) => {
                let (hl, tl) = self.operand(*lo);
                let (hh, th) = self.operand(*hi);
                let m = self.logical(top_var(&self.bdd, hl)).min(self.logical(top_var(&self.bdd, hh))).min(k);
                if m == 0 {
                    // no variable lies above both children: not a call any caller could make
                    return Ok(info);
                }
                let var = pick((*v as u16) << 8, m);
                let t = t_ite(k, var, th, tl);
                (self.bdd.node(Var(self.vm[var]), hl, hh), t)
            }
            Op::Serde => {
                let json = serde_json::to_string(&self.bdd).map_err(|e| format!("serialise: {e}"))?;
                let mut nb: Bdd =
                    serde_json::from_str(&json).map_err(|e| format!("deserialise: {e}"))?;
                nb.fix_import();
                self.bdd = nb;
                info.rematerialised = true;
                self.after_rematerialise(&before_nodes)?;
                return Ok(info);
            }
            Op::Rebuild => {
                self.bdd = Bdd::from(self.bdd.nodes.clone());
                info.rematerialised = true;
                self.after_rematerialise(&before_nodes)?;
                return Ok(info);
            }
            Op::RebuildStream => {
                self.bdd = Bdd::from(self.bdd.nodes[2..].to_vec());
                info.rematerialised = true;
                self.after_rematerialise(&before_nodes)?;
                return Ok(info);
            }
            Op::SerdePartialCache(sel) => {
                let mut v = serde_json::to_value(&self.bdd).map_err(|e| format!("serialise: {e}"))?;
                let cache = v.get_mut("cache").and_then(|c| c.as_array_mut()).ok_or("exported store has no `cache` list")?;
                // sel % 4: 0 = none survives, 1 = every second (by position in a sorted order), 2 = the first half, 3 = all but one
                let mut entries = std::mem::take(cache);
                entries.sort_by_key(|e| e.to_string());
                let n = entries.len();
                let keep: Vec<serde_json::Value> = entries
                    .into_iter()
                    .enumerate()
                    .filter(|(i, _)| match sel % 4 {
                        0 => false,
                        1 => (i + (*sel as usize >> 2)) % 2 == 0,
                        2 => *i < n / 2,
                        _ => *i != (*sel as usize >> 2) % n.max(1),
                    })
                    .map(|(_, e)| e)
                    .collect();
                let dropped = n - keep.len();
                *cache = keep;
                let mut nb: Bdd = serde_json::from_value(v).map_err(|e| format!("deserialise: {e}"))?;
                nb.fix_import();
                self.bdd = nb;
                if dropped > 0 {
                    self.degraded = true;
                }
                info.rematerialised = true;
                info.partial_import = dropped > 0;
                self.after_rematerialise(&before_nodes)?;
                return Ok(info);
            }
            Op::SerdeNoFix => {
                let json = serde_json::to_string(&self.bdd).map_err(|e| format!("serialise: {e}"))?;
                let mut nb: Bdd =
                    serde_json::from_str(&json).map_err(|e| format!("deserialise: {e}"))?;
                #[allow(unexpected_cfgs)]
                let must_fix = cfg!(not(feature = "probe")) || cfg!(feature = "variablelist") || cfg!(feature = "adhoccounting");
                if must_fix {
                    nb.fix_import();
                }
                self.bdd = nb;
                info.rematerialised = true;
                self.after_rematerialise(&before_nodes)?;
                return Ok(info);
            }
            Op::FixImport => {
                self.bdd.fix_import();
                info.rematerialised = true;
                self.after_rematerialise(&before_nodes)?;
                return Ok(info);
            }
            Op::AdfNodeList => {
                let adf = adf_bdd::adf::Adf::from((
                    adf_bdd::datatypes::adf::VarContainer::default(),
                    Bdd::from(self.bdd.nodes.clone()),
                    vec![Term::TOP],
                ));
                self.bdd = adf.bdd;
                info.rematerialised = true;
                self.after_rematerialise(&before_nodes)?;
                return Ok(info);
            }
            Op::AdfSerde => {
                let adf = adf_bdd::adf::Adf::from((
                    adf_bdd::datatypes::adf::VarContainer::default(),
                    std::mem::replace(&mut self.bdd, Bdd::new()),
                    vec![Term::TOP],
                ));
                let json = serde_json::to_string(&adf).map_err(|e| format!("serialise: {e}"))?;
                let mut back: adf_bdd::adf::Adf =
                    serde_json::from_str(&json).map_err(|e| format!("deserialise: {e}"))?;
                back.fix_import();
                self.bdd = back.bdd;
                info.rematerialised = true;
                self.after_rematerialise(&before_nodes)?;
                return Ok(info);
            }
        };
        info.result = Some(res);
        if res.value() >= self.bdd.nodes.len() {
            return Err(format!(
                "{op:?} returned handle {} outside the node table (len {})",
                res.value(),
                self.bdd.nodes.len()
            ));
        }
        info.created_nodes = self.bdd.nodes.len().saturating_sub(before_nodes.len());
        // C07: the result denotes the named function
        let w = self.walked(res)?;
        if w != table {
            return Err(format!(
                "{op:?} (operands resolved on {} issued handles) returned handle {} denoting {} but the named function is {}",
                self.issued.len(),
                res.value(),
                show_table(&w, k),
                show_table(&table, k)
            ));
        }
        // C07: previously issued handles keep their function. If the old part of the node table is
        // bit-identical this is implied (entries reachable from an old handle are unchanged);
        // otherwise every old handle is re-walked.
        let prefix_same = self.bdd.nodes.len() >= before_nodes.len()
            && self.bdd.nodes[..before_nodes.len()] == before_nodes[..];
        if !prefix_same {
            self.rewalk_all(&format!("{op:?}"))?;
        }
        let existed = res.value() < before_nodes.len();
        let hit = self.record(res, table)?;
        info.canonicity_hit = hit && existed && res.value() > 1;
        Ok(info)
    }

    fn rewalk_all(&self, what: &str) -> Result<(), String> {
        for (h, t, _) in &self.issued {
            if h.value() >= self.bdd.nodes.len() {
                return Err(format!(
                    "after {what}: previously issued handle {} no longer exists",
                    h.value()
                ));
            }
            let w = self.walked(*h)?;
            if &w != t {
                return Err(format!(
                    "after {what}: previously issued handle {} now denotes {} instead of {}",
                    h.value(),
                    show_table(&w, self.k),
                    show_table(t, self.k)
                ));
            }
        }
        Ok(())
    }

    fn after_rematerialise(&mut self, _before: &[BddNode]) -> Result<(), String> {
        self.rewalk_all("re-materialisation")
    }

    /// C06 I1-I3 over the whole public node table.
    pub fn invariants(&self) -> Result<(), String> {
        structural_invariants(&self.bdd.nodes, None)?;
        for (i, n) in self.bdd.nodes.iter().enumerate().skip(2) {
            if !self.vm.contains(&n.var().value()) {
                return Err(format!("node {i} tests variable {} which was never created", n.var().value()));
            }
        }
        Ok(())
    }
}

/// I1 reduced, I2 ordered (+ constants at 0/1), I3 duplicate-free.
pub fn structural_invariants(nodes: &[BddNode], k: Option<usize>) -> Result<(), String> {
    if nodes.len() < 2 {
        return Err("node table lost its constant entries".into());
    }
    if nodes[0] != BddNode::bot_node() || nodes[1] != BddNode::top_node() {
        return Err("entries 0/1 are not the constant nodes".into());
    }
    let mut seen: HashMap<(usize, usize, usize), usize> = HashMap::new();
    for (i, n) in nodes.iter().enumerate().skip(2) {
        let (v, lo, hi) = (n.var().value(), n.lo().value(), n.hi().value());
        if lo >= nodes.len() || hi >= nodes.len() {
            return Err(format!("node {i} has a child outside the table"));
        }
        if n.var().is_constant() {
            return Err(format!("node {i} carries a constant's variable"));
        }
        if let Some(k) = k {
            if v >= k {
                return Err(format!("node {i} tests variable {v} which was never created (k={k})"));
            }
        }
        if lo == hi {
            return Err(format!("not reduced: node {i} has equal branches ({lo})"));
        }
        for c in [lo, hi] {
            let cv = nodes[c].var().value();
            if cv <= v {
                return Err(format!(
                    "not ordered: node {i} tests variable {v} but its child {c} tests variable {cv}"
                ));
            }
        }
        if let Some(j) = seen.insert((v, lo, hi), i) {
            return Err(format!("duplicate nodes {j} and {i}: ({v},{lo},{hi})"));
        }
    }
    Ok(())
}

pub fn show_table(t: &Table, k: usize) -> String {
    let r = rows(k).min(64);
    let mut s = String::new();
    for a in 0..r {
        s.push(if t_get(t, a) { '1' } else { '0' });
    }
    if rows(k) > 64 {
        s.push('…');
    }
    s
}
