//! Own formula AST (exactly the input language), evaluator, support, rendering.
//! Independent of the library's parser / diagrams (trusted base).

use serde::{Deserialize, Serialize};
use std::collections::BTreeSet;

#[derive(Clone, Debug, PartialEq, Eq, Hash, Serialize, Deserialize)]
pub enum F {
    Top,
    Bot,
    Atom(usize),
    Not(Box<F>),
    And(Box<F>, Box<F>),
    Or(Box<F>, Box<F>),
    Imp(Box<F>, Box<F>),
    Iff(Box<F>, Box<F>),
    Xor(Box<F>, Box<F>),
}

#[allow(dead_code)]
impl F {
    pub fn not(a: F) -> F {
        F::Not(Box::new(a))
    }
    pub fn and(a: F, b: F) -> F {
        F::And(Box::new(a), Box::new(b))
    }
    pub fn or(a: F, b: F) -> F {
        F::Or(Box::new(a), Box::new(b))
    }
    pub fn imp(a: F, b: F) -> F {
        F::Imp(Box::new(a), Box::new(b))
    }
    pub fn iff(a: F, b: F) -> F {
        F::Iff(Box::new(a), Box::new(b))
    }
    pub fn xor(a: F, b: F) -> F {
        F::Xor(Box::new(a), Box::new(b))
    }

    /// Evaluate under a total assignment given as a lookup.
    pub fn eval(&self, v: &dyn Fn(usize) -> bool) -> bool {
        match self {
            F::Top => true,
            F::Bot => false,
            F::Atom(i) => v(*i),
            F::Not(a) => !a.eval(v),
            F::And(a, b) => a.eval(v) && b.eval(v),
            F::Or(a, b) => a.eval(v) || b.eval(v),
            F::Imp(a, b) => !a.eval(v) || b.eval(v),
            F::Iff(a, b) => a.eval(v) == b.eval(v),
            F::Xor(a, b) => a.eval(v) != b.eval(v),
        }
    }

    /// Evaluate under an assignment given as a bit mask (bit i = value of statement i).
    pub fn eval_bits(&self, bits: u64) -> bool {
        self.eval(&|i| (bits >> i) & 1 == 1)
    }

    pub fn support(&self) -> BTreeSet<usize> {
        let mut s = BTreeSet::new();
        self.collect(&mut s);
        s
    }
    fn collect(&self, s: &mut BTreeSet<usize>) {
        match self {
            F::Top | F::Bot => {}
            F::Atom(i) => {
                s.insert(*i);
            }
            F::Not(a) => a.collect(s),
            F::And(a, b) | F::Or(a, b) | F::Imp(a, b) | F::Iff(a, b) | F::Xor(a, b) => {
                a.collect(s);
                b.collect(s);
            }
        }
    }

    pub fn max_atom(&self) -> Option<usize> {
        self.support().into_iter().max()
    }

    pub fn size(&self) -> usize {
        match self {
            F::Top | F::Bot | F::Atom(_) => 1,
            F::Not(a) => 1 + a.size(),
            F::And(a, b) | F::Or(a, b) | F::Imp(a, b) | F::Iff(a, b) | F::Xor(a, b) => {
                1 + a.size() + b.size()
            }
        }
    }

    pub fn depth(&self) -> usize {
        match self {
            F::Top | F::Bot | F::Atom(_) => 0,
            F::Not(a) => 1 + a.depth(),
            F::And(a, b) | F::Or(a, b) | F::Imp(a, b) | F::Iff(a, b) | F::Xor(a, b) => {
                1 + a.depth().max(b.depth())
            }
        }
    }

    pub fn has_binary(&self) -> bool {
        match self {
            F::Top | F::Bot | F::Atom(_) => false,
            F::Not(a) => a.has_binary(),
            _ => true,
        }
    }

    /// contains imp (polarity-asymmetric connective)
    pub fn has_asym(&self) -> bool {
        match self {
            F::Top | F::Bot | F::Atom(_) => false,
            F::Not(a) => a.has_asym(),
            F::Imp(_, _) => true,
            F::And(a, b) | F::Or(a, b) | F::Iff(a, b) | F::Xor(a, b) => {
                a.has_asym() || b.has_asym()
            }
        }
    }

    /// Truth table over statements 0..n (n <= 7) as a 2^n-bit mask: bit a set iff true under
    /// assignment a.
    pub fn tt(&self, n: usize) -> u128 {
        assert!(n <= 7);
        let mut m = 0u128;
        for a in 0..(1u64 << n) {
            if self.eval_bits(a) {
                m |= 1u128 << a;
            }
        }
        m
    }

    /// Rename atoms.
    pub fn map_atoms(&self, f: &dyn Fn(usize) -> usize) -> F {
        match self {
            F::Top => F::Top,
            F::Bot => F::Bot,
            F::Atom(i) => F::Atom(f(*i)),
            F::Not(a) => F::not(a.map_atoms(f)),
            F::And(a, b) => F::and(a.map_atoms(f), b.map_atoms(f)),
            F::Or(a, b) => F::or(a.map_atoms(f), b.map_atoms(f)),
            F::Imp(a, b) => F::imp(a.map_atoms(f), b.map_atoms(f)),
            F::Iff(a, b) => F::iff(a.map_atoms(f), b.map_atoms(f)),
            F::Xor(a, b) => F::xor(a.map_atoms(f), b.map_atoms(f)),
        }
    }

    /// Substitute constants for some atoms (None = keep).
    pub fn subst(&self, f: &dyn Fn(usize) -> Option<bool>) -> F {
        match self {
            F::Top => F::Top,
            F::Bot => F::Bot,
            F::Atom(i) => match f(*i) {
                Some(true) => F::Top,
                Some(false) => F::Bot,
                None => F::Atom(*i),
            },
            F::Not(a) => F::not(a.subst(f)),
            F::And(a, b) => F::and(a.subst(f), b.subst(f)),
            F::Or(a, b) => F::or(a.subst(f), b.subst(f)),
            F::Imp(a, b) => F::imp(a.subst(f), b.subst(f)),
            F::Iff(a, b) => F::iff(a.subst(f), b.subst(f)),
            F::Xor(a, b) => F::xor(a.subst(f), b.subst(f)),
        }
    }

    /// Render in the input syntax. `ws` yields the whitespace to put before/after commas.
    pub fn render(&self, lab: &dyn Fn(usize) -> String, ws: &mut dyn FnMut() -> &'static str) -> String {
        match self {
            F::Top => "c(v)".into(),
            F::Bot => "c(f)".into(),
            F::Atom(i) => lab(*i),
            F::Not(a) => format!("neg({})", a.render(lab, ws)),
            F::And(a, b) => Self::bin("and", a, b, lab, ws),
            F::Or(a, b) => Self::bin("or", a, b, lab, ws),
            F::Imp(a, b) => Self::bin("imp", a, b, lab, ws),
            F::Iff(a, b) => Self::bin("iff", a, b, lab, ws),
            F::Xor(a, b) => Self::bin("xor", a, b, lab, ws),
        }
    }
    fn bin(
        op: &str,
        a: &F,
        b: &F,
        lab: &dyn Fn(usize) -> String,
        ws: &mut dyn FnMut() -> &'static str,
    ) -> String {
        let l = a.render(lab, ws);
        let w1 = ws();
        let w2 = ws();
        let r = b.render(lab, ws);
        format!("{op}({l}{w1},{w2}{r})")
    }

    pub fn render_plain(&self, lab: &dyn Fn(usize) -> String) -> String {
        self.render(lab, &mut || "")
    }

    /// Build a formula from a truth table over `support` (bit j of the row index = value of
    /// support[j]) as DNF (style 0), CNF (style 1) or nested if-then-else (style 2).
    pub fn from_table(support: &[usize], table: u64, style: u8) -> F {
        let k = support.len();
        let rows = 1usize << k;
        match style % 3 {
            0 => {
                let mut terms: Vec<F> = Vec::new();
                for r in 0..rows {
                    if (table >> r) & 1 == 1 {
                        terms.push(Self::cube(support, r, true));
                    }
                }
                terms.into_iter().reduce(F::or).unwrap_or(F::Bot)
            }
            1 => {
                let mut clauses: Vec<F> = Vec::new();
                for r in 0..rows {
                    if (table >> r) & 1 == 0 {
                        clauses.push(Self::cube(support, r, false));
                    }
                }
                clauses.into_iter().reduce(F::and).unwrap_or(F::Top)
            }
            _ => Self::ite(support, table, k),
        }
    }
    fn cube(support: &[usize], row: usize, dnf: bool) -> F {
        // dnf: conjunction of literals true exactly at row; cnf: disjunction false exactly at row
        let lits = support.iter().enumerate().map(|(j, &s)| {
            let bit = (row >> j) & 1 == 1;
            if bit == dnf {
                F::Atom(s)
            } else {
                F::not(F::Atom(s))
            }
        });
        if dnf {
            lits.reduce(F::and).unwrap_or(F::Top)
        } else {
            lits.reduce(F::or).unwrap_or(F::Bot)
        }
    }
    fn ite(support: &[usize], table: u64, k: usize) -> F {
        if k == 0 {
            return if table & 1 == 1 { F::Top } else { F::Bot };
        }
        // split on the last support variable (highest bit of the row index)
        let half = 1usize << (k - 1);
        let mask = if half >= 64 { u64::MAX } else { (1u64 << half) - 1 };
        let lo = table & mask;
        let hi = (table >> half) & mask;
        let v = F::Atom(support[k - 1]);
        let flo = Self::ite(support, lo, k - 1);
        let fhi = Self::ite(support, hi, k - 1);
        if flo == fhi {
            return flo;
        }
        // (v -> hi) and (not v -> lo) written with imp / or
        F::and(F::imp(v.clone(), fhi), F::or(v, flo))
    }
}
