//! Read-only diagram queries checked against own computations (used by C13 and the C12 probe).

use crate::bddmodel::*;
use adf_bdd::datatypes::{ModelCounts, Term, Var};
use adf_bdd::obdd::Bdd;
use std::collections::{BTreeSet, HashMap};

/// (paths to bot, paths to top, depth, min depth) by own DFS over the public node table
pub fn dfs(bdd: &Bdd, t: Term, memo: &mut HashMap<usize, (u128, u128, usize, usize)>) -> (u128, u128, usize, usize) {
    if t == Term::TOP {
        return (0, 1, 0, 0);
    }
    if t == Term::BOT {
        return (1, 0, 0, 0);
    }
    if let Some(r) = memo.get(&t.value()) {
        return *r;
    }
    let n = bdd.nodes[t.value()];
    let l = dfs(bdd, n.lo(), memo);
    let h = dfs(bdd, n.hi(), memo);
    let r = (l.0 + h.0, l.1 + h.1, 1 + l.2.max(h.2), 1 + l.3.min(h.3));
    memo.insert(t.value(), r);
    r
}

pub fn reachable_nodes(bdd: &Bdd, t: Term) -> usize {
    let mut seen = BTreeSet::new();
    let mut stack = vec![t.value()];
    while let Some(i) = stack.pop() {
        if i < 2 || !seen.insert(i) {
            continue;
        }
        stack.push(bdd.nodes[i].lo().value());
        stack.push(bdd.nodes[i].hi().value());
    }
    seen.len()
}

pub fn check_ratio(what: &str, mc: ModelCounts, sat: u64, unsat: u64) -> Result<(), String> {
    let (m, c) = (mc.models as u128, mc.cmodels as u128);
    if m + c == 0 {
        return Err(format!("{what}: both counts are zero"));
    }
    if m * unsat as u128 != c * sat as u128 {
        return Err(format!(
            "{what}: models={m} cmodels={c} is not in the ratio of {sat} satisfying to {unsat} falsifying assignments"
        ));
    }
    Ok(())
}

/// All read-only queries on handle `h` whose function (over k variables) is `t`.
/// `memo_models_valid`: whether memoised model counts are documented to work in this build.
pub fn check_queries(
    bdd: &Bdd,
    k: usize,
    h: Term,
    t: &Table,
    termlist: &[(Term, Table)],
    goal_var: usize,
    memo_models_valid: bool,
) -> Result<bool, String> {
    let ident: Vec<usize> = (0..k).collect();
    check_queries_mapped(bdd, k, h, t, termlist, goal_var, memo_models_valid, &ident)
}

/// as `check_queries` with logical variable i living at library variable vm[i]
#[allow(clippy::too_many_arguments)]
pub fn check_queries_mapped(
    bdd: &Bdd,
    k: usize,
    h: Term,
    t: &Table,
    termlist: &[(Term, Table)],
    goal_var: usize,
    memo_models_valid: bool,
    vm: &[usize],
) -> Result<bool, String> {
    let identity = vm.iter().enumerate().all(|(i, &a)| i == a);
    let to_logical = |actual: usize| vm.iter().position(|&a| a == actual);
    let goal_actual = if goal_var < k { vm[goal_var] } else { vm.last().map(|x| x + 1).unwrap_or(0) };
    let mut memo = HashMap::new();
    let (p0, p1, depth, mindepth) = dfs(bdd, h, &mut memo);
    let hv = h.value();
    // paths
    for flag in [true, false] {
        let pc = bdd.paths(h, flag);
        if pc.cmodels as u128 != p0 || pc.models as u128 != p1 {
            return Err(format!(
                "paths({hv},{flag}) = (to-bot {}, to-top {}) but the diagram has {p0} paths to bot and {p1} to top",
                pc.cmodels, pc.models
            ));
        }
    }
    // models
    let sat = t_count(t);
    let unsat = rows(k) as u64 - sat;
    let naive = bdd.models(h, false);
    check_ratio(&format!("models({hv},naive)"), naive, sat, unsat)?;
    if memo_models_valid {
        let m = bdd.models(h, true);
        check_ratio(&format!("models({hv},memoised)"), m, sat, unsat)?;
        if m != naive {
            return Err(format!("models({hv}): naive {naive:?} and memoised {m:?} disagree"));
        }
    }
    // depth
    let d = bdd.max_depth(h);
    if d != depth {
        return Err(format!("max_depth({hv}) = {d} but the longest root-to-leaf path has {depth} edges"));
    }
    // dependencies
    let sup: BTreeSet<usize> = t_support(k, t).into_iter().collect();
    let mut deps: BTreeSet<usize> = BTreeSet::new();
    for v in bdd.var_dependencies(h) {
        match to_logical(v.value()) {
            Some(i) => {
                deps.insert(i);
            }
            None => return Err(format!("var_dependencies({hv}) lists variable {} which was never created", v.value())),
        }
    }
    if deps != sup {
        return Err(format!(
            "var_dependencies({hv}) = {deps:?} but the function depends exactly on {sup:?}"
        ));
    }
    // impacts
    if !termlist.is_empty() {
        let terms: Vec<Term> = termlist.iter().map(|x| x.0).collect();
        for v in 0..k.max(terms.len()).min(12) {
            let exp = termlist
                .iter()
                .filter(|(_, tt)| v < k && t_support(k, tt).contains(&v))
                .count();
            let got = bdd.passive_var_impact(Var(if v < k { vm[v] } else { goal_actual.max(vm.last().copied().unwrap_or(0)) + 1 + v }), &terms);
            if got != exp {
                return Err(format!(
                    "passive_var_impact(var {v}) = {got} but {exp} of the listed diagrams depend on it"
                ));
            }
        }
        // (positions = variables: only meaningful when logical and library indices coincide)
        for v in 0..if identity { terms.len() } else { 0 } {
            let s = t_support(k, &termlist[v].1);
            let exp = (0..terms.len()).filter(|i| s.contains(i)).count();
            let got = bdd.active_var_impact(Var(v), &terms);
            // a term list shorter than the variable count is outside what any caller does, and the statement ("counting
            // exactly those dependencies") does not say whether dependencies beyond the list count: both readings pass
            let all = s.len();
            if got != exp && got != all {
                return Err(format!(
                    "active_var_impact(var {v}) = {got} but diagram #{v} depends on {exp} of the listed positions"
                ));
            }
        }
    }
    // path cubes
    for goal in [true, false] {
        let cubes_actual = bdd.interpretations(h, goal, Var(goal_actual), &[], &[]);
        let mut cubes: Vec<(Vec<Var>, Vec<Var>)> = Vec::new();
        for (neg, pos) in &cubes_actual {
            let mut m = |l: &Vec<Var>| -> Result<Vec<Var>, String> {
                l.iter()
                    .map(|v| to_logical(v.value()).map(Var).ok_or_else(|| format!("cube mentions variable {} which was never created", v.value())))
                    .collect()
            };
            cubes.push((m(neg)?, m(pos)?));
        }
        if hv < 2 {
            if !cubes.is_empty() {
                return Err("interpretations() of a constant yields cubes".into());
            }
            continue;
        }
        let mut masks: Vec<(u64, u64)> = Vec::new(); // (care, value)
        for (neg, pos) in &cubes {
            // documented: "it is ensured that the goal is consistent with the respective interpretation"
            let against = if goal { neg } else { pos };
            if against.iter().any(|v| v.value() == goal_var) {
                return Err(format!(
                    "interpretations({hv},goal={goal},goal_var={goal_var}): cube ({neg:?},{pos:?}) gives the goal variable the opposite value"
                ));
            }
            let mut care = 0u64;
            let mut val = 0u64;
            for v in neg {
                if care >> v.value() & 1 == 1 {
                    return Err(format!("cube ({neg:?},{pos:?}) mentions variable {} twice", v.value()));
                }
                care |= 1 << v.value();
            }
            for v in pos {
                if care >> v.value() & 1 == 1 {
                    return Err(format!("cube ({neg:?},{pos:?}) mentions variable {} twice", v.value()));
                }
                care |= 1 << v.value();
                val |= 1 << v.value();
            }
            masks.push((care, val));
        }
        for i in 0..masks.len() {
            for j in 0..i {
                let common = masks[i].0 & masks[j].0;
                if (masks[i].1 ^ masks[j].1) & common == 0 {
                    return Err(format!(
                        "interpretations({hv},goal={goal},goal_var={goal_var}): cubes {:?} and {:?} overlap",
                        cubes[j], cubes[i]
                    ));
                }
            }
        }
        for a in 0..rows(k) {
            if goal_var < k && ((a >> goal_var) & 1 == 1) != goal {
                continue;
            }
            let covered = masks.iter().any(|(care, val)| (a as u64 ^ val) & care == 0);
            let wanted = t_get(t, a) == goal;
            if covered != wanted {
                return Err(format!(
                    "interpretations({hv},goal={goal},goal_var={goal_var}): assignment {a:#b} is {} by the cubes but f={}",
                    if covered { "covered" } else { "not covered" },
                    t_get(t, a)
                ));
            }
        }
    }
    Ok(hv >= 2 && reachable_nodes(bdd, h) >= 4 && depth != mindepth)
}

