fn main() {
    vcheck::main_entry()
}
