//! std-only HTTP/1.1 client with a cookie jar and a multipart encoder (one connection per request).

use std::collections::BTreeMap;
use std::io::{Read, Write};
use std::net::TcpStream;
use std::time::Duration;

#[derive(Clone, Debug, Default)]
pub struct Jar {
    pub cookies: BTreeMap<String, String>,
}

#[derive(Clone, Debug)]
pub struct Response {
    pub status: u16,
    pub headers: Vec<(String, String)>,
    pub body: Vec<u8>,
}

impl Response {
    pub fn text(&self) -> String {
        String::from_utf8_lossy(&self.body).into_owned()
    }
    pub fn json(&self) -> Result<serde_json::Value, String> {
        serde_json::from_slice(&self.body).map_err(|e| format!("response is not JSON ({e}): {}", self.text().chars().take(200).collect::<String>()))
    }
}

pub struct Client {
    pub port: u16,
}

impl Client {
    pub fn request(
        &self,
        jar: &mut Jar,
        method: &str,
        path: &str,
        content_type: Option<&str>,
        body: &[u8],
    ) -> Result<Response, String> {
        let mut s = TcpStream::connect(("127.0.0.1", self.port)).map_err(|e| format!("connect: {e}"))?;
        s.set_read_timeout(Some(Duration::from_secs(120))).ok();
        s.set_nodelay(true).ok();
        let mut req = format!("{method} {path} HTTP/1.1\r\nHost: 127.0.0.1:{}\r\nConnection: close\r\nAccept: */*\r\n", self.port);
        if !jar.cookies.is_empty() {
            let c: Vec<String> = jar.cookies.iter().map(|(k, v)| format!("{k}={v}")).collect();
            req.push_str(&format!("Cookie: {}\r\n", c.join("; ")));
        }
        if let Some(ct) = content_type {
            req.push_str(&format!("Content-Type: {ct}\r\n"));
        }
        req.push_str(&format!("Content-Length: {}\r\n\r\n", body.len()));
        s.write_all(req.as_bytes()).map_err(|e| format!("write: {e}"))?;
        s.write_all(body).map_err(|e| format!("write: {e}"))?;
        let mut raw = Vec::new();
        s.read_to_end(&mut raw).map_err(|e| format!("read: {e}"))?;
        let split = raw
            .windows(4)
            .position(|w| w == b"\r\n\r\n")
            .ok_or_else(|| format!("malformed HTTP response ({} bytes)", raw.len()))?;
        let head = String::from_utf8_lossy(&raw[..split]).to_string();
        let mut body = raw[split + 4..].to_vec();
        let mut lines = head.split("\r\n");
        let status_line = lines.next().unwrap_or("");
        let status: u16 = status_line
            .split(' ')
            .nth(1)
            .and_then(|x| x.parse().ok())
            .ok_or_else(|| format!("bad status line {status_line:?}"))?;
        let mut headers = Vec::new();
        for l in lines {
            if let Some((k, v)) = l.split_once(':') {
                headers.push((k.trim().to_ascii_lowercase(), v.trim().to_string()));
            }
        }
        if headers.iter().any(|(k, v)| k == "transfer-encoding" && v.to_ascii_lowercase().contains("chunked")) {
            body = dechunk(&body)?;
        }
        for (k, v) in &headers {
            if k == "set-cookie" {
                let first = v.split(';').next().unwrap_or("");
                if let Some((name, value)) = first.split_once('=') {
                    let lower = v.to_ascii_lowercase();
                    let expired = value.is_empty() || lower.contains("max-age=0") || lower.contains("expires=thu, 01 jan 1970");
                    if expired {
                        jar.cookies.remove(name.trim());
                    } else {
                        jar.cookies.insert(name.trim().to_string(), value.trim().to_string());
                    }
                }
            }
        }
        Ok(Response { status, headers, body })
    }

    pub fn get(&self, jar: &mut Jar, path: &str) -> Result<Response, String> {
        self.request(jar, "GET", path, None, b"")
    }
    pub fn delete(&self, jar: &mut Jar, path: &str) -> Result<Response, String> {
        self.request(jar, "DELETE", path, None, b"")
    }
    pub fn json(&self, jar: &mut Jar, method: &str, path: &str, v: &serde_json::Value) -> Result<Response, String> {
        self.request(jar, method, path, Some("application/json"), v.to_string().as_bytes())
    }
    pub fn multipart(&self, jar: &mut Jar, path: &str, fields: &[(&str, &str)]) -> Result<Response, String> {
        let boundary = "----verifboundary7MA4YWxkTrZu0gW";
        let mut body = Vec::new();
        for (k, v) in fields {
            if let Some(name) = k.strip_prefix("@") {
                // a file part
                body.extend(format!("--{boundary}\r\nContent-Disposition: form-data; name=\"{name}\"; filename=\"upload.adf\"\r\nContent-Type: text/plain\r\n\r\n").as_bytes());
                body.extend(v.as_bytes());
                body.extend(b"\r\n");
                continue;
            }
            body.extend(format!("--{boundary}\r\nContent-Disposition: form-data; name=\"{k}\"\r\n\r\n").as_bytes());
            body.extend(v.as_bytes());
            body.extend(b"\r\n");
        }
        body.extend(format!("--{boundary}--\r\n").as_bytes());
        self.request(jar, "POST", path, Some(&format!("multipart/form-data; boundary={boundary}")), &body)
    }
}

fn dechunk(b: &[u8]) -> Result<Vec<u8>, String> {
    let mut out = Vec::new();
    let mut pos = 0;
    loop {
        let nl = b[pos..].windows(2).position(|w| w == b"\r\n").ok_or("bad chunk")?;
        let size_str = String::from_utf8_lossy(&b[pos..pos + nl]).to_string();
        let size = usize::from_str_radix(size_str.split(';').next().unwrap_or("").trim(), 16).map_err(|e| e.to_string())?;
        pos += nl + 2;
        if size == 0 {
            return Ok(out);
        }
        if pos + size > b.len() {
            return Err("truncated chunk".into());
        }
        out.extend(&b[pos..pos + size]);
        pos += size + 2;
    }
}

pub fn urlencode_path(s: &str) -> String {
    let mut o = String::new();
    for b in s.bytes() {
        if b.is_ascii_alphanumeric() || b"-_.~".contains(&b) {
            o.push(b as char);
        } else {
            o.push_str(&format!("%{b:02X}"));
        }
    }
    o
}
