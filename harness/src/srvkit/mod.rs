//! Harness for the web service: the real server binary (built from the current tree) runs against
//! an in-process MongoDB stub and is driven over HTTP.

pub mod http;
pub mod mongostub;

use http::Client;
use mongostub::Stub;
use std::path::PathBuf;
use std::process::{Child, Command, Stdio};
use std::time::{Duration, Instant};

pub struct Server {
    pub child: Child,
    pub port: u16,
    pub stub: Stub,
    pub log: PathBuf,
}

fn free_port() -> std::io::Result<u16> {
    let l = std::net::TcpListener::bind(("127.0.0.1", 0))?;
    Ok(l.local_addr()?.port())
}

pub fn server_bin() -> PathBuf {
    PathBuf::from(std::env::var("VERIF_SERVER_BIN").unwrap_or_else(|_| "/verif/target/repo/debug/adf-bdd-server".into()))
}
pub fn shim() -> PathBuf {
    PathBuf::from(std::env::var("VERIF_BIND_SHIM").unwrap_or_else(|_| "/verif/target/bindshim.so".into()))
}

impl Server {
    pub fn start() -> Result<Server, String> {
        let stub = Stub::start().map_err(|e| format!("mongo stub: {e}"))?;
        let dir = crate::verif_root().join("target").join("tmp").join(format!("srv{}", std::process::id()));
        std::fs::create_dir_all(&dir).map_err(|e| e.to_string())?;
        for attempt in 0..5 {
            let port = free_port().map_err(|e| e.to_string())?;
            let log = dir.join(format!("server-{port}.log"));
            // the service logs at debug level unconditionally (every diagram node of every task): gigabytes for long
            // tasks. Its stderr is only kept on request (VERIF_SERVER_LOG=1).
            let keep_log = std::env::var("VERIF_SERVER_LOG").map(|v| v == "1").unwrap_or(false);
            let logf = if keep_log {
                std::fs::File::create(&log).map_err(|e| e.to_string())?
            } else {
                std::fs::OpenOptions::new().write(true).open("/dev/null").map_err(|e| e.to_string())?
            };
            let child = Command::new(server_bin())
                .current_dir(&dir)
                .env("MONGODB_URI", stub.uri())
                .env("VERIF_HTTP_PORT", port.to_string())
                .env("LD_PRELOAD", shim())
                .env("RUST_BACKTRACE", "0")
                .stdin(Stdio::null())
                .stdout(Stdio::null())
                .stderr(Stdio::from(logf))
                .spawn()
                .map_err(|e| format!("cannot start {}: {e}", server_bin().display()))?;
            // the driver kills servers that outlive the harness process (statics are not dropped on exit)
            let _ = std::fs::write(dir.join(format!("server-{}.pid", child.id())), child.id().to_string());
            let mut srv = Server { child, port, stub: stub.share(), log };
            let t0 = Instant::now();
            loop {
                if let Ok(Some(st)) = srv.child.try_wait() {
                    if attempt == 4 {
                        return Err(format!("server exited during start-up with {st}; log: {}", srv.log.display()));
                    }
                    break;
                }
                if std::net::TcpStream::connect(("127.0.0.1", port)).is_ok() {
                    return Ok(srv);
                }
                if t0.elapsed() > Duration::from_secs(60) {
                    let _ = srv.child.kill();
                    return Err("server did not start listening within 60 s".into());
                }
                std::thread::sleep(Duration::from_millis(20));
            }
        }
        Err("server could not be started".into())
    }

    pub fn client(&self) -> Client {
        Client { port: self.port }
    }
}

impl Drop for Server {
    fn drop(&mut self) {
        let _ = self.child.kill();
        let _ = self.child.wait();
    }
}
