//! Minimal in-process MongoDB server speaking OP_MSG, sufficient for the adf-bdd-server:
//! hello/isMaster, ping, createIndexes (unique), find (equality filters), insert, update ($set on
//! dotted paths, replacement documents, multi), delete, endSessions. The database is a shared
//! in-memory structure that the harness inspects directly.

use bson::{doc, Bson, Document};
use std::collections::BTreeMap;
use std::io::{Read, Write};
use std::net::{TcpListener, TcpStream};
use std::sync::atomic::{AtomicU64, Ordering};
use std::sync::{Arc, Condvar, Mutex};

#[derive(Default)]
pub struct Db {
    /// (db.collection) -> documents
    pub colls: BTreeMap<String, Vec<Document>>,
    /// (db.collection) -> unique single-field indexes
    pub unique: BTreeMap<String, Vec<String>>,
    /// every command seen: (namespace, command name, short description)
    pub log: Vec<(String, String, String)>,
}

/// Optional gate: commands (other than handshake) wait until released by the harness.
#[derive(Default)]
pub struct Gate {
    pub enabled: bool,
    /// pending command descriptions in arrival order, with a ticket id
    pub pending: Vec<(u64, String)>,
    /// tickets allowed to proceed
    pub released: Vec<u64>,
}

pub struct Stub {
    pub port: u16,
    pub db: Arc<Mutex<Db>>,
    pub commands: Arc<AtomicU64>,
    pub gate: Arc<(Mutex<Gate>, Condvar)>,
    next_ticket: Arc<AtomicU64>,
}

impl Stub {
    pub fn start() -> std::io::Result<Stub> {
        let listener = TcpListener::bind(("127.0.0.1", 0))?;
        let port = listener.local_addr()?.port();
        let db = Arc::new(Mutex::new(Db::default()));
        let commands = Arc::new(AtomicU64::new(0));
        let gate = Arc::new((Mutex::new(Gate::default()), Condvar::new()));
        let next_ticket = Arc::new(AtomicU64::new(1));
        let (d, c, g, t) = (db.clone(), commands.clone(), gate.clone(), next_ticket.clone());
        std::thread::spawn(move || {
            for conn in listener.incoming() {
                match conn {
                    Ok(s) => {
                        let (d, c, g, t) = (d.clone(), c.clone(), g.clone(), t.clone());
                        std::thread::spawn(move || {
                            let _ = serve(s, d, c, g, t);
                        });
                    }
                    Err(_) => break,
                }
            }
        });
        Ok(Stub {
            port,
            db,
            commands,
            gate,
            next_ticket,
        })
    }

    pub fn uri(&self) -> String {
        format!("mongodb://127.0.0.1:{}/?directConnection=true", self.port)
    }

    pub fn snapshot(&self, ns: &str) -> Vec<Document> {
        self.db.lock().unwrap().colls.get(ns).cloned().unwrap_or_default()
    }

    pub fn command_count(&self) -> u64 {
        self.commands.load(Ordering::SeqCst)
    }

    // ---- gating (schedule control at DB-command granularity)
    pub fn set_gating(&self, on: bool) {
        let (m, cv) = &*self.gate;
        let mut g = m.lock().unwrap();
        g.enabled = on;
        if !on {
            let all: Vec<u64> = g.pending.iter().map(|p| p.0).collect();
            g.released.extend(all);
        }
        cv.notify_all();
    }
    pub fn pending(&self) -> Vec<(u64, String)> {
        self.gate.0.lock().unwrap().pending.clone()
    }
    pub fn release(&self, ticket: u64) {
        let (m, cv) = &*self.gate;
        m.lock().unwrap().released.push(ticket);
        cv.notify_all();
    }
    /// another handle onto the same stub
    pub fn share(&self) -> Stub {
        Stub {
            port: self.port,
            db: self.db.clone(),
            commands: self.commands.clone(),
            gate: self.gate.clone(),
            next_ticket: self.next_ticket.clone(),
        }
    }
}

fn read_exact(s: &mut TcpStream, n: usize) -> std::io::Result<Vec<u8>> {
    let mut b = vec![0u8; n];
    s.read_exact(&mut b)?;
    Ok(b)
}

fn serve(
    mut s: TcpStream,
    db: Arc<Mutex<Db>>,
    commands: Arc<AtomicU64>,
    gate: Arc<(Mutex<Gate>, Condvar)>,
    next_ticket: Arc<AtomicU64>,
) -> std::io::Result<()> {
    s.set_nodelay(true)?;
    loop {
        let head = read_exact(&mut s, 16)?;
        let len = i32::from_le_bytes(head[0..4].try_into().unwrap()) as usize;
        let req_id = i32::from_le_bytes(head[4..8].try_into().unwrap());
        let opcode = i32::from_le_bytes(head[12..16].try_into().unwrap());
        let body = read_exact(&mut s, len - 16)?;
        if opcode != 2013 {
            // legacy OP_QUERY handshake: answer with OP_REPLY carrying a hello document
            if opcode == 2004 {
                let reply_doc = hello_doc();
                let mut d = Vec::new();
                reply_doc.to_writer(&mut d).unwrap();
                let mut out = Vec::new();
                let total = 16 + 20 + d.len();
                out.extend((total as i32).to_le_bytes());
                out.extend(0i32.to_le_bytes());
                out.extend(req_id.to_le_bytes());
                out.extend(1i32.to_le_bytes()); // OP_REPLY
                out.extend(8i32.to_le_bytes()); // flags: AwaitCapable
                out.extend(0i64.to_le_bytes());
                out.extend(0i32.to_le_bytes());
                out.extend(1i32.to_le_bytes());
                out.extend(d);
                s.write_all(&out)?;
                continue;
            }
            return Ok(());
        }
        // OP_MSG
        let mut pos = 4; // flag bits
        let mut cmd: Option<Document> = None;
        let mut seqs: Vec<(String, Vec<Document>)> = Vec::new();
        while pos < body.len() {
            let kind = body[pos];
            pos += 1;
            if kind == 0 {
                let dl = i32::from_le_bytes(body[pos..pos + 4].try_into().unwrap()) as usize;
                let d = Document::from_reader(&body[pos..pos + dl]).map_err(|e| std::io::Error::other(e.to_string()))?;
                cmd = Some(d);
                pos += dl;
            } else if kind == 1 {
                let sl = i32::from_le_bytes(body[pos..pos + 4].try_into().unwrap()) as usize;
                let end = pos + sl;
                let mut p = pos + 4;
                let zero = body[p..end].iter().position(|b| *b == 0).unwrap();
                let ident = String::from_utf8_lossy(&body[p..p + zero]).to_string();
                p += zero + 1;
                let mut docs = Vec::new();
                while p < end {
                    let dl = i32::from_le_bytes(body[p..p + 4].try_into().unwrap()) as usize;
                    docs.push(Document::from_reader(&body[p..p + dl]).map_err(|e| std::io::Error::other(e.to_string()))?);
                    p += dl;
                }
                seqs.push((ident, docs));
                pos = end;
            } else {
                break;
            }
        }
        let mut cmd = cmd.unwrap_or_default();
        for (ident, docs) in seqs {
            cmd.insert(ident, Bson::Array(docs.into_iter().map(Bson::Document).collect()));
        }
        let name = cmd.keys().next().cloned().unwrap_or_default();
        let handshake = matches!(name.as_str(), "isMaster" | "ismaster" | "hello" | "ping" | "endSessions" | "buildInfo" | "createIndexes");
        if !handshake {
            // gate
            let (m, cv) = &*gate;
            let mut g = m.lock().unwrap();
            if g.enabled {
                let ticket = next_ticket.fetch_add(1, Ordering::SeqCst);
                g.pending.push((ticket, describe(&cmd)));
                cv.notify_all();
                while g.enabled && !g.released.contains(&ticket) {
                    g = cv.wait(g).unwrap();
                }
                g.pending.retain(|p| p.0 != ticket);
                g.released.retain(|t| *t != ticket);
                cv.notify_all();
            }
        }
        let reply = handle(&db, &cmd);
        if !handshake {
            commands.fetch_add(1, Ordering::SeqCst);
        }
        let mut d = Vec::new();
        reply.to_writer(&mut d).unwrap();
        let total = 16 + 4 + 1 + d.len();
        let mut out = Vec::with_capacity(total);
        out.extend((total as i32).to_le_bytes());
        out.extend(0i32.to_le_bytes());
        out.extend(req_id.to_le_bytes());
        out.extend(2013i32.to_le_bytes());
        out.extend(0u32.to_le_bytes());
        out.push(0);
        out.extend(d);
        s.write_all(&out)?;
    }
}

fn hello_doc() -> Document {
    doc! {
        "ok": 1.0, "isWritablePrimary": true, "ismaster": true, "helloOk": true,
        "maxBsonObjectSize": 16777216i32, "maxMessageSizeBytes": 48000000i32, "maxWriteBatchSize": 100000i32,
        "minWireVersion": 0i32, "maxWireVersion": 17i32, "readOnly": false, "connectionId": 1i32,
    }
}

pub fn describe(cmd: &Document) -> String {
    let name = cmd.keys().next().cloned().unwrap_or_default();
    let coll = cmd.get_str(&name).unwrap_or("");
    let detail = match name.as_str() {
        "find" => format!("{}", cmd.get_document("filter").cloned().unwrap_or_default()),
        "insert" => cmd
            .get_array("documents")
            .ok()
            .and_then(|a| a.first().and_then(|d| d.as_document()).map(|d| format!("{{username: {:?}, name: {:?}}}", d.get("username"), d.get("name"))))
            .unwrap_or_default(),
        "update" => cmd
            .get_array("updates")
            .ok()
            .and_then(|a| a.first().and_then(|d| d.as_document()).map(|d| {
                let keys: Vec<String> = d.get_document("u").map(|u| u.keys().cloned().collect()).unwrap_or_default();
                format!("q={} u-keys={keys:?}", d.get_document("q").cloned().unwrap_or_default())
            }))
            .unwrap_or_default(),
        "delete" => cmd
            .get_array("deletes")
            .ok()
            .and_then(|a| a.first().and_then(|d| d.as_document()).map(|d| format!("q={}", d.get_document("q").cloned().unwrap_or_default())))
            .unwrap_or_default(),
        _ => String::new(),
    };
    format!("{name} {coll} {detail}")
}

fn get_path<'a>(d: &'a Document, path: &str) -> Option<&'a Bson> {
    let mut cur: Option<&Bson> = None;
    let mut doc = d;
    let parts: Vec<&str> = path.split('.').collect();
    for (i, p) in parts.iter().enumerate() {
        cur = doc.get(*p);
        if i + 1 < parts.len() {
            match cur {
                Some(Bson::Document(x)) => doc = x,
                _ => return None,
            }
        }
    }
    cur
}

fn set_path(d: &mut Document, path: &str, v: Bson) {
    let mut parts = path.splitn(2, '.');
    let head = parts.next().unwrap();
    match parts.next() {
        None => {
            d.insert(head, v);
        }
        Some(rest) => {
            if !matches!(d.get(head), Some(Bson::Document(_))) {
                d.insert(head, Bson::Document(Document::new()));
            }
            if let Some(Bson::Document(inner)) = d.get_mut(head) {
                set_path(inner, rest, v);
            }
        }
    }
}

pub fn matches_filter(d: &Document, filter: &Document) -> bool {
    filter.iter().all(|(k, v)| match v {
        Bson::Document(op) if op.keys().any(|k| k.starts_with('$')) => op.iter().all(|(o, x)| match o.as_str() {
            "$eq" => get_path(d, k) == Some(x),
            "$ne" => get_path(d, k) != Some(x),
            "$in" => x.as_array().map(|a| get_path(d, k).map(|y| a.contains(y)).unwrap_or(false)).unwrap_or(false),
            _ => false,
        }),
        _ => get_path(d, k) == Some(v),
    })
}

/// Apply an update specification (operators or replacement document) to `old`; `inserting` = the document is being
/// created by an upsert ($setOnInsert applies).
fn apply_update(old: &Document, upd: &Document, inserting: bool) -> Document {
    let mut new = old.clone();
    if upd.keys().any(|k| k.starts_with('$')) {
        if let Ok(set) = upd.get_document("$set") {
            for (k, v) in set {
                set_path(&mut new, k, v.clone());
            }
        }
        if inserting {
            if let Ok(set) = upd.get_document("$setOnInsert") {
                for (k, v) in set {
                    set_path(&mut new, k, v.clone());
                }
            }
        }
        if let Ok(unset) = upd.get_document("$unset") {
            for (k, _) in unset {
                new.remove(k);
            }
        }
        if let Ok(inc) = upd.get_document("$inc") {
            for (k, v) in inc {
                let cur = get_path(&new, k).cloned();
                let sum = match (cur, v) {
                    (Some(Bson::Int32(a)), Bson::Int32(b)) => Bson::Int32(a + b),
                    (Some(Bson::Int64(a)), Bson::Int32(b)) => Bson::Int64(a + *b as i64),
                    (Some(Bson::Int64(a)), Bson::Int64(b)) => Bson::Int64(a + b),
                    (Some(Bson::Int32(a)), Bson::Int64(b)) => Bson::Int64(a as i64 + b),
                    (None, x) => x.clone(),
                    (Some(x), _) => x,
                };
                set_path(&mut new, k, sum);
            }
        }
        for (op, add_to_set) in [("$push", false), ("$addToSet", true)] {
            if let Ok(push) = upd.get_document(op) {
                for (k, v) in push {
                    let mut arr = match get_path(&new, k) {
                        Some(Bson::Array(a)) => a.clone(),
                        _ => Vec::new(),
                    };
                    if !(add_to_set && arr.contains(v)) {
                        arr.push(v.clone());
                    }
                    set_path(&mut new, k, Bson::Array(arr));
                }
            }
        }
        if let Ok(pull) = upd.get_document("$pull") {
            for (k, v) in pull {
                if let Some(Bson::Array(a)) = get_path(&new, k) {
                    let kept: Vec<Bson> = a
                        .iter()
                        .filter(|x| match (x, v) {
                            (Bson::Document(d), Bson::Document(f)) => !matches_filter(d, f),
                            _ => *x != v,
                        })
                        .cloned()
                        .collect();
                    set_path(&mut new, k, Bson::Array(kept));
                }
            }
        }
    } else {
        // replacement document keeps _id
        let id = old.get("_id").cloned();
        new = upd.clone();
        if let Some(id) = id {
            if !new.contains_key("_id") {
                let mut with_id = Document::new();
                with_id.insert("_id", id);
                for (k, v) in new.iter() {
                    with_id.insert(k.clone(), v.clone());
                }
                new = with_id;
            }
        }
    }
    new
}

/// the document an upsert starts from: a fresh _id plus the equality conditions of the filter
fn upsert_seed(q: &Document) -> Document {
    let mut d = Document::new();
    d.insert("_id", Bson::ObjectId(bson::oid::ObjectId::new()));
    for (k, v) in q {
        match v {
            Bson::Document(op) if op.keys().any(|k| k.starts_with('$')) => {
                if let Some(x) = op.get("$eq") {
                    set_path(&mut d, k, x.clone());
                }
            }
            _ if !k.starts_with('$') => set_path(&mut d, k, v.clone()),
            _ => {}
        }
    }
    d
}

fn unique_violation(db: &Db, ns: &str, candidate: &Document, skip_idx: Option<usize>) -> Option<String> {
    for field in db.unique.get(ns).cloned().unwrap_or_default() {
        if let Some(v) = candidate.get(&field) {
            if let Some(docs) = db.colls.get(ns) {
                for (i, d) in docs.iter().enumerate() {
                    if Some(i) != skip_idx && d.get(&field) == Some(v) {
                        return Some(format!(
                            "E11000 duplicate key error collection: {ns} index: {field}_1 dup key: {{ {field}: {v} }}"
                        ));
                    }
                }
            }
        }
    }
    None
}

fn handle(db: &Arc<Mutex<Db>>, cmd: &Document) -> Document {
    let name = cmd.keys().next().cloned().unwrap_or_default();
    let dbname = cmd.get_str("$db").unwrap_or("admin").to_string();
    let coll = cmd.get_str(&name).unwrap_or("").to_string();
    let ns = format!("{dbname}.{coll}");
    let mut g = db.lock().unwrap();
    if !matches!(name.as_str(), "isMaster" | "ismaster" | "hello" | "ping") {
        let desc = describe(cmd);
        g.log.push((ns.clone(), name.clone(), desc));
    }
    match name.as_str() {
        "isMaster" | "ismaster" | "hello" => hello_doc(),
        "ping" | "endSessions" | "killCursors" => doc! {"ok": 1.0},
        "buildInfo" => doc! {"ok": 1.0, "version": "6.0.0"},
        "createIndexes" => {
            if let Ok(ix) = cmd.get_array("indexes") {
                for i in ix {
                    if let Some(i) = i.as_document() {
                        if i.get_bool("unique").unwrap_or(false) {
                            if let Ok(k) = i.get_document("key") {
                                for f in k.keys() {
                                    let e = g.unique.entry(ns.clone()).or_default();
                                    if !e.contains(f) {
                                        e.push(f.clone());
                                    }
                                }
                            }
                        }
                    }
                }
            }
            doc! {"ok": 1.0, "createdCollectionAutomatically": true, "numIndexesBefore": 1i32, "numIndexesAfter": 2i32}
        }
        "find" => {
            let filter = cmd.get_document("filter").cloned().unwrap_or_default();
            let limit = match cmd.get("limit") {
                Some(Bson::Int32(x)) => *x as i64,
                Some(Bson::Int64(x)) => *x,
                _ => 0,
            };
            let mut res: Vec<Bson> = Vec::new();
            if let Some(docs) = g.colls.get(&ns) {
                for d in docs {
                    if matches_filter(d, &filter) {
                        res.push(Bson::Document(d.clone()));
                        if limit != 0 && res.len() as i64 >= limit.abs() {
                            break;
                        }
                    }
                }
            }
            doc! {"ok": 1.0, "cursor": {"id": 0i64, "ns": ns, "firstBatch": res}}
        }
        "insert" => {
            let mut n = 0i32;
            let mut errs: Vec<Bson> = Vec::new();
            if let Ok(docs) = cmd.get_array("documents") {
                for (i, d) in docs.iter().enumerate() {
                    if let Some(d) = d.as_document() {
                        if let Some(msg) = unique_violation(&g, &ns, d, None) {
                            errs.push(Bson::Document(doc! {"index": i as i32, "code": 11000i32, "errmsg": msg}));
                            break;
                        }
                        g.colls.entry(ns.clone()).or_default().push(d.clone());
                        n += 1;
                    }
                }
            }
            let mut r = doc! {"ok": 1.0, "n": n};
            if !errs.is_empty() {
                r.insert("writeErrors", errs);
            }
            r
        }
        "update" => {
            let mut n = 0i32;
            let mut modified = 0i32;
            let mut errs: Vec<Bson> = Vec::new();
            let mut upserted: Vec<Bson> = Vec::new();
            if let Ok(ups) = cmd.get_array("updates") {
                for (ui, u) in ups.iter().enumerate() {
                    let Some(u) = u.as_document() else { continue };
                    let q = u.get_document("q").cloned().unwrap_or_default();
                    let upd = u.get_document("u").cloned().unwrap_or_default();
                    let multi = u.get_bool("multi").unwrap_or(false);
                    let idxs: Vec<usize> = g
                        .colls
                        .get(&ns)
                        .map(|docs| docs.iter().enumerate().filter(|(_, d)| matches_filter(d, &q)).map(|(i, _)| i).collect())
                        .unwrap_or_default();
                    if idxs.is_empty() && u.get_bool("upsert").unwrap_or(false) {
                        let new = apply_update(&upsert_seed(&q), &upd, true);
                        if let Some(msg) = unique_violation(&g, &ns, &new, None) {
                            errs.push(Bson::Document(doc! {"index": ui as i32, "code": 11000i32, "errmsg": msg}));
                        } else {
                            upserted.push(Bson::Document(doc! {"index": ui as i32, "_id": new.get("_id").cloned().unwrap_or(Bson::Null)}));
                            g.colls.entry(ns.clone()).or_default().push(new);
                            n += 1;
                        }
                        continue;
                    }
                    for idx in idxs {
                        let old = g.colls.get(&ns).unwrap()[idx].clone();
                        let new = apply_update(&old, &upd, false);
                        if let Some(msg) = unique_violation(&g, &ns, &new, Some(idx)) {
                            errs.push(Bson::Document(doc! {"index": ui as i32, "code": 11000i32, "errmsg": msg}));
                            break;
                        }
                        n += 1;
                        if new != old {
                            modified += 1;
                            g.colls.get_mut(&ns).unwrap()[idx] = new;
                        }
                        if !multi {
                            break;
                        }
                    }
                }
            }
            let mut r = doc! {"ok": 1.0, "n": n, "nModified": modified};
            if !upserted.is_empty() {
                r.insert("upserted", upserted);
            }
            if !errs.is_empty() {
                r.insert("writeErrors", errs);
            }
            r
        }
        "findAndModify" | "findandmodify" => {
            let q = cmd.get_document("query").cloned().unwrap_or_default();
            let remove = cmd.get_bool("remove").unwrap_or(false);
            let want_new = cmd.get_bool("new").unwrap_or(false);
            let upsert = cmd.get_bool("upsert").unwrap_or(false);
            let idx = g.colls.get(&ns).and_then(|docs| docs.iter().position(|d| matches_filter(d, &q)));
            match (idx, remove) {
                (Some(i), true) => {
                    let old = g.colls.get_mut(&ns).unwrap().remove(i);
                    doc! {"ok": 1.0, "lastErrorObject": {"n": 1i32}, "value": old}
                }
                (None, true) => doc! {"ok": 1.0, "lastErrorObject": {"n": 0i32}, "value": Bson::Null},
                (Some(i), false) => {
                    let upd = cmd.get_document("update").cloned().unwrap_or_default();
                    let old = g.colls.get(&ns).unwrap()[i].clone();
                    let new = apply_update(&old, &upd, false);
                    if let Some(msg) = unique_violation(&g, &ns, &new, Some(i)) {
                        doc! {"ok": 0.0, "code": 11000i32, "codeName": "DuplicateKey", "errmsg": msg}
                    } else {
                        g.colls.get_mut(&ns).unwrap()[i] = new.clone();
                        doc! {"ok": 1.0, "lastErrorObject": {"n": 1i32, "updatedExisting": true}, "value": if want_new { new } else { old }}
                    }
                }
                (None, false) if upsert => {
                    let upd = cmd.get_document("update").cloned().unwrap_or_default();
                    let new = apply_update(&upsert_seed(&q), &upd, true);
                    if let Some(msg) = unique_violation(&g, &ns, &new, None) {
                        doc! {"ok": 0.0, "code": 11000i32, "codeName": "DuplicateKey", "errmsg": msg}
                    } else {
                        g.colls.entry(ns.clone()).or_default().push(new.clone());
                        let id = new.get("_id").cloned().unwrap_or(Bson::Null);
                        doc! {"ok": 1.0, "lastErrorObject": {"n": 1i32, "updatedExisting": false, "upserted": id}, "value": if want_new { Bson::Document(new) } else { Bson::Null }}
                    }
                }
                (None, false) => doc! {"ok": 1.0, "lastErrorObject": {"n": 0i32, "updatedExisting": false}, "value": Bson::Null},
            }
        }
        "count" => {
            let q = cmd.get_document("query").cloned().unwrap_or_default();
            let n = g.colls.get(&ns).map(|docs| docs.iter().filter(|d| matches_filter(d, &q)).count()).unwrap_or(0);
            doc! {"ok": 1.0, "n": n as i32}
        }
        "aggregate" => {
            // what count_documents sends: [$match, ($skip, $limit,) $group {_id: 1, n: {$sum: 1}}]; other pipelines: $match only
            let mut docs: Vec<Document> = g.colls.get(&ns).cloned().unwrap_or_default();
            let mut unsupported = None;
            if let Ok(pipe) = cmd.get_array("pipeline") {
                for stage in pipe {
                    let Some(stage) = stage.as_document() else { continue };
                    for (k, v) in stage {
                        match (k.as_str(), v) {
                            ("$match", Bson::Document(f)) => docs.retain(|d| matches_filter(d, f)),
                            ("$limit", x) => {
                                let l = x.as_i64().or(x.as_i32().map(|v| v as i64)).unwrap_or(0).max(0) as usize;
                                docs.truncate(l);
                            }
                            ("$skip", x) => {
                                let l = x.as_i64().or(x.as_i32().map(|v| v as i64)).unwrap_or(0).max(0) as usize;
                                docs = docs.into_iter().skip(l).collect();
                            }
                            ("$group", Bson::Document(gspec)) if gspec.len() == 2 && gspec.get_document("n").map(|n| n.contains_key("$sum")).unwrap_or(false) => {
                                let n = docs.len() as i64;
                                docs = if n == 0 { Vec::new() } else { vec![doc! {"_id": gspec.get("_id").cloned().unwrap_or(Bson::Null), "n": n}] };
                            }
                            (other, _) => unsupported = Some(other.to_string()),
                        }
                    }
                }
            }
            match unsupported {
                Some(st) => doc! {"ok": 0.0, "errmsg": format!("pipeline stage {st} is not implemented by the verification stub"), "code": 40324i32},
                None => doc! {"ok": 1.0, "cursor": {"id": 0i64, "ns": ns, "firstBatch": docs.into_iter().map(Bson::Document).collect::<Vec<_>>()}},
            }
        }
        "delete" => {
            let mut n = 0i32;
            if let Ok(dels) = cmd.get_array("deletes") {
                for d in dels {
                    let Some(d) = d.as_document() else { continue };
                    let q = d.get_document("q").cloned().unwrap_or_default();
                    let limit = match d.get("limit") {
                        Some(Bson::Int32(x)) => *x as i64,
                        Some(Bson::Int64(x)) => *x,
                        _ => 0,
                    };
                    if let Some(docs) = g.colls.get_mut(&ns) {
                        let mut kept = Vec::new();
                        let mut removed = 0i64;
                        for doc in docs.drain(..) {
                            if matches_filter(&doc, &q) && (limit == 0 || removed < limit) {
                                removed += 1;
                            } else {
                                kept.push(doc);
                            }
                        }
                        *docs = kept;
                        n += removed as i32;
                    }
                }
            }
            doc! {"ok": 1.0, "n": n}
        }
        other => doc! {"ok": 0.0, "errmsg": format!("no such command: '{other}'"), "code": 59i32, "codeName": "CommandNotFound"},
    }
}
