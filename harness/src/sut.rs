//! Thin helpers around the library under test.

use crate::oracle::{Interp, Tv};
use adf_bdd::adf::Adf;
use adf_bdd::adfbiodivine::Adf as BdAdf;
use adf_bdd::datatypes::{Term, Var};
use adf_bdd::obdd::Bdd;
use adf_bdd::parser::AdfParser;
use serde::{Deserialize, Serialize};

#[derive(Clone, Copy, Debug, PartialEq, Eq, Hash, Serialize, Deserialize)]
pub enum Sort {
    None,
    Lexi,
    Alphanum,
}

/// Parse `text` (must consume everything), apply the sorting and hand the parser to `f`.
pub fn with_parser<R>(
    text: &str,
    sort: Sort,
    f: impl FnOnce(&AdfParser) -> R,
) -> Result<R, String> {
    // every fourth text (by a hash of the text) re-uses its parser object: ADFs are built from it in
    // parse order first, the sorting is applied afterwards and only then the object is handed out
    let reuse = sort != Sort::None && text.bytes().fold(0u32, |a, b| a.wrapping_mul(31).wrapping_add(b as u32)) % 4 == 0;
    with_parser_opt(text, sort, reuse, f)
}

/// As `with_parser`; with `reuse` the parser object is first used to build ADFs in parse order
/// and only then re-sorted (a parser object may be reused: objects built AFTER a re-sort must be right).
pub fn with_parser_opt<R>(
    text: &str,
    sort: Sort,
    reuse: bool,
    f: impl FnOnce(&AdfParser) -> R,
) -> Result<R, String> {
    let parser = AdfParser::default();
    match parser.parse()(text) {
        Ok((rest, ())) => {
            if !rest.is_empty() {
                return Err(format!("parser left a rest: {rest:?}"));
            }
        }
        Err(e) => return Err(format!("parse error: {e}")),
    }
    if reuse {
        // (only when every statement with a condition is declared: instantiation panics otherwise)
        let declared_ok = (0..parser.dict_size() + 64).map_while(|i| parser.ac_at(i)).count() > 0;
        if declared_ok {
            let _ = std::panic::catch_unwind(std::panic::AssertUnwindSafe(|| {
                let _ = Adf::from_parser(&parser);
                let _ = BdAdf::from_parser(&parser);
            }));
        }
    }
    match sort {
        Sort::None => {}
        Sort::Lexi => {
            parser.varsort_lexi();
        }
        Sort::Alphanum => {
            parser.varsort_alphanum();
        }
    }
    Ok(f(&parser))
}

pub fn tv(t: Term) -> Tv {
    if t.is_truth_value() {
        if t.is_true() {
            Tv::T
        } else {
            Tv::F
        }
    } else {
        Tv::U
    }
}

pub fn abs(v: &[Term]) -> Interp {
    v.iter().map(|&t| tv(t)).collect()
}

pub fn names_of(adf: &Adf) -> Vec<String> {
    adf.ordering.names().read().unwrap().clone()
}

/// perm[lib index] = logical index (by label)
pub fn perm_from_names(names: &[String], labels: &[String]) -> Result<Vec<usize>, String> {
    if names.len() != labels.len() {
        return Err(format!(
            "library knows {} statements, input declares {}",
            names.len(),
            labels.len()
        ));
    }
    names
        .iter()
        .map(|nm| {
            labels
                .iter()
                .position(|l| l == nm)
                .ok_or_else(|| format!("library label {nm:?} is not a declared label"))
        })
        .collect()
}

/// Translate an interpretation in library order into logical (generator) order.
pub fn to_logical(perm: &[usize], lib: &[Tv]) -> Result<Interp, String> {
    if perm.len() != lib.len() {
        return Err(format!(
            "interpretation has {} entries for {} statements",
            lib.len(),
            perm.len()
        ));
    }
    let mut out = vec![Tv::U; lib.len()];
    for (li, &lo) in perm.iter().enumerate() {
        out[lo] = lib[li];
    }
    Ok(out)
}

pub fn set_to_logical(perm: &[usize], set: &[Vec<Term>]) -> Result<Vec<Interp>, String> {
    set.iter().map(|i| to_logical(perm, &abs(i))).collect()
}

/// Walk a diagram from `t` under `assign` (assign(var index) -> bool) using only the public node
/// table. Returns Err on malformed structure (out-of-range handle, cycle).
pub fn walk(bdd: &Bdd, t: Term, assign: &dyn Fn(usize) -> bool) -> Result<bool, String> {
    let mut cur = t;
    let mut steps = 0usize;
    loop {
        if cur.value() >= bdd.nodes.len() {
            return Err(format!("handle {} out of range", cur.value()));
        }
        if cur == Term::TOP {
            return Ok(true);
        }
        if cur == Term::BOT {
            return Ok(false);
        }
        let node = bdd.nodes[cur.value()];
        let v = node.var();
        if v.is_constant() {
            return Err(format!("inner handle {} has a constant variable", cur.value()));
        }
        cur = if assign(v.value()) { node.hi() } else { node.lo() };
        steps += 1;
        if steps > bdd.nodes.len() + 2 {
            return Err("walk does not terminate (cycle in node table)".into());
        }
    }
}

/// Truth table of a handle over k variables as a bit vector (Vec<u64>, bit a = value under a).
pub fn table_of(bdd: &Bdd, t: Term, k: usize) -> Result<Vec<u64>, String> {
    let rows = 1usize << k;
    let mut out = vec![0u64; rows.div_ceil(64)];
    for a in 0..rows {
        if walk(bdd, t, &|v| v < k && (a >> v) & 1 == 1)? {
            out[a / 64] |= 1 << (a % 64);
        }
    }
    Ok(out)
}

pub fn var(v: usize) -> Var {
    Var(v)
}

pub type Native = Adf;
pub type Bio = BdAdf;
