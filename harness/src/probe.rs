//! Shared between the harness and the per-feature-set probe binaries (C12): a case is executed
//! against the library as compiled with some cargo feature set, self-checked against the oracles
//! and turned into a canonical, handle-free transcript that must be identical in every build.

use crate::bddmodel::{Program, Shadow};
use crate::calls::{self, Abs, Call};
use crate::formula::F;
use crate::gen::{self, Layout};
use crate::queries;
use crate::sut::{self, Sort};
use adf_bdd::adf::Adf;
use adf_bdd::adfbiodivine::Adf as BdAdf;
use adf_bdd::datatypes::Var;
use serde::{Deserialize, Serialize};
use serde_json::{json, Value};

#[derive(Clone, Debug, Serialize, Deserialize)]
pub enum ProbeCase {
    Adf {
        acs: Vec<F>,
        labels: Vec<String>,
        layout: Layout,
        sort: Sort,
        backend: u8,
        calls: Vec<Call>,
        /// second round of an exchange: instead of building the ADF from the text, the state exported (serde JSON)
        /// by ANOTHER feature build after its run is imported and repaired with fix_import
        #[serde(default)]
        import: Option<String>,
        /// ask for the exchange (only read by the harness)
        #[serde(default)]
        exchange: Option<u8>,
    },
    Ops {
        prog: Program,
        goal_var: u8,
        /// with the frontend feature: the store streams its nodes and the listener hangs up after this
        /// many operations (builds without the feature run the plain store; transcripts must agree)
        #[serde(default)]
        hangup_after: Option<u8>,
        /// the program runs on a producer; its node stream is mirrored into a second store (frontend
        /// builds: with_sender / with_receiver / recv; other builds: `Bdd::from(nodes)`), which is
        /// repaired with fix_import and then runs the program again: that second run is what is reported
        #[serde(default)]
        mirror: bool,
        /// second round of an exchange: the program runs on the store another feature build exported
        #[serde(default)]
        import: Option<String>,
        #[serde(default)]
        exchange: Option<u8>,
    },
    /// one diagram over 20..100 variables made of a literal chain (and / or / xor, skipped variables) under a selector:
    /// children that differ in depth by more than a machine word has bits, counts beyond 2^64 (which saturate)
    Deep {
        vars: u8,
        spec: Vec<(u8, bool, bool)>,
        memo_first: bool,
        /// the diagram is built on a store that another diagram was exported from / imported into first
        #[serde(default)]
        reimport: bool,
        /// only counts that fit a machine word are compared (C13: exactness is claimed for those; what a count that
        /// does not fit looks like is only compared between the feature builds, C12)
        #[serde(default)]
        fits_only: bool,
    },
}

/// depth-based counts of a diagram over the public node table: (models, counter-models, depth) with the shallower child
/// scaled by 2^(depth difference), exact in u128 (depth <= 110), and the two path counts
fn deep_counts(bdd: &adf_bdd::obdd::Bdd, t: adf_bdd::datatypes::Term, memo: &mut std::collections::HashMap<usize, (u128, u128, u32, u128, u128)>) -> (u128, u128, u32, u128, u128) {
    use adf_bdd::datatypes::Term;
    if t == Term::TOP {
        return (1, 0, 0, 1, 0);
    }
    if t == Term::BOT {
        return (0, 1, 0, 0, 1);
    }
    if let Some(r) = memo.get(&t.value()) {
        return *r;
    }
    let n = bdd.nodes[t.value()];
    let l = deep_counts(bdd, n.lo(), memo);
    let h = deep_counts(bdd, n.hi(), memo);
    let d = l.2.max(h.2);
    let r = ((l.0 << (d - l.2)) + (h.0 << (d - h.2)), (l.1 << (d - l.2)) + (h.1 << (d - h.2)), d + 1, l.3 + h.3, l.4 + h.4);
    memo.insert(t.value(), r);
    r
}

fn hex(t: &[u64]) -> String {
    t.iter().map(|w| format!("{w:016x}")).collect::<Vec<_>>().join("")
}

/// Execute a case. `memo_models_valid` = memoised model counting is documented to work in this
/// build (false iff adhoccounting without adhoccountmodels).
pub fn run(case: &ProbeCase, memo_models_valid: bool) -> Result<Value, String> {
    match case {
        ProbeCase::Ops { prog, goal_var, hangup_after, mirror, import, .. } => {
            let k = prog.k as usize;
            #[cfg(feature = "frontend")]
            let (mut sh, mut listener) = match hangup_after {
                Some(_) => {
                    let (s, r) = crossbeam_channel::unbounded::<adf_bdd::datatypes::BddNode>();
                    (Shadow::with_bdd(k, adf_bdd::obdd::Bdd::with_sender(s)).with_spread(prog.spread), Some(r))
                }
                None => (Shadow::new(k).with_spread(prog.spread), None),
            };
            #[cfg(not(feature = "frontend"))]
            let mut sh = Shadow::new(k).with_spread(prog.spread);
            let _ = hangup_after;
            if *mirror && hangup_after.is_none() {
                #[cfg(feature = "frontend")]
                let second = {
                    let (s, r) = crossbeam_channel::unbounded::<adf_bdd::datatypes::BddNode>();
                    let mut producer = Shadow::with_bdd(k, adf_bdd::obdd::Bdd::with_sender(s)).with_spread(prog.spread);
                    for (i, op) in prog.ops.iter().enumerate() {
                        producer.step(op).map_err(|e| format!("producer step {i}: {e}"))?;
                    }
                    let mut m = adf_bdd::obdd::Bdd::with_receiver(r);
                    let want = producer.bdd.nodes.len();
                    m.recv(adf_bdd::datatypes::Term(want));
                    if m.nodes != producer.bdd.nodes {
                        return Err("mirror differs from the producer after draining".into());
                    }
                    m.fix_import();
                    m
                };
                #[cfg(not(feature = "frontend"))]
                let second = {
                    let mut producer = Shadow::new(k).with_spread(prog.spread);
                    for (i, op) in prog.ops.iter().enumerate() {
                        producer.step(op).map_err(|e| format!("producer step {i}: {e}"))?;
                    }
                    let mut m = adf_bdd::obdd::Bdd::from(producer.bdd.nodes.clone());
                    m.fix_import();
                    m
                };
                sh = Shadow::with_bdd(k, second).with_spread(prog.spread);
            }
            if let Some(state) = import {
                let mut b: adf_bdd::obdd::Bdd = serde_json::from_str(state).map_err(|e| format!("state exported by another build does not load: {e}"))?;
                b.fix_import();
                sh = Shadow::with_bdd(k, b).with_spread(prog.spread);
            }
            let mut steps = Vec::new();
            for (i, op) in prog.ops.iter().enumerate() {
                #[cfg(feature = "frontend")]
                if hangup_after.map(|h| h as usize % prog.ops.len().max(1)) == Some(i) {
                    listener = None;
                }
                let info = sh.step(op).map_err(|e| format!("step {i}: {e}"))?;
                sh.invariants().map_err(|e| format!("after step {i}: {e}"))?;
                steps.push(match info.result {
                    Some(h) => json!(hex(&sh.walked(h)?)),
                    None => Value::Null,
                });
            }
            // cold queries first: depth on a store where nothing has been memoised yet
            let mut memo = std::collections::HashMap::new();
            for (h, _, _) in &sh.issued {
                let want = queries::dfs(&sh.bdd, *h, &mut memo).2;
                let got = sh.bdd.max_depth(*h);
                if got != want {
                    return Err(format!(
                        "max_depth({}) = {got} on a store without memoised counts, longest path has {want} edges",
                        h.value()
                    ));
                }
            }
            let termlist: Vec<_> = sh.issued.iter().rev().take(8).map(|(h, t, _)| (*h, t.clone())).collect();
            let gv = (*goal_var as usize) % (k + 1);
            let mut per_handle = Vec::new();
            for (h, t, _) in &sh.issued {
                queries::check_queries_mapped(&sh.bdd, k, *h, t, &termlist, gv, memo_models_valid, &sh.vm)?;
                let p = sh.bdd.paths(*h, false);
                let m = sh.bdd.models(*h, false);
                let mut deps: Vec<usize> = sh.bdd.var_dependencies(*h).into_iter().map(|v| v.value()).collect();
                deps.sort();
                let mut cubes = Vec::new();
                for goal in [true, false] {
                    let mut c: Vec<(Vec<usize>, Vec<usize>)> = sh
                        .bdd
                        .interpretations(*h, goal, Var(if gv < k { sh.vm[gv] } else { sh.vm[k - 1] + 1 }), &[], &[])
                        .into_iter()
                        .map(|(n, p)| {
                            let mut n: Vec<usize> = n.into_iter().map(|v| v.value()).collect();
                            let mut p: Vec<usize> = p.into_iter().map(|v| v.value()).collect();
                            n.sort();
                            p.sort();
                            (n, p)
                        })
                        .collect();
                    c.sort();
                    cubes.push(c);
                }
                per_handle.push(json!({
                    "table": hex(t),
                    "paths": [p.cmodels, p.models],
                    "models": [m.cmodels, m.models],
                    "depth": sh.bdd.max_depth(*h),
                    "deps": deps,
                    "cubes": cubes,
                }));
            }
            #[cfg(feature = "frontend")]
            drop(listener);
            let export = serde_json::to_string(&sh.bdd).map_err(|e| e.to_string())?;
            Ok(json!({"steps": steps, "handles": per_handle, "nodes": sh.bdd.nodes.len(), "export": export}))
        }
        ProbeCase::Deep { vars, spec, memo_first, reimport, fits_only } => {
            use adf_bdd::datatypes::Term;
            use adf_bdd::obdd::Bdd;
            let v = (*vars as usize).clamp(4, 100);
            let mut bdd = Bdd::new();
            let mut acc: Option<Term> = None;
            let mut handles = Vec::new();
            // at most ten exclusive-ors: the naive procedures of the builds without counting features walk every path
            let mut xors = 0;
            for i in (1..v).rev() {
                let (mut con, pol, skip) = spec[i % spec.len()];
                if con % 3 == 2 {
                    xors += 1;
                    if xors > 10 {
                        con = i as u8 % 2;
                    }
                }
                if skip && i != 1 {
                    continue;
                }
                let x = bdd.variable(Var(i));
                let lit = if pol { x } else { bdd.not(x) };
                acc = Some(match acc {
                    None => lit,
                    Some(a) => match con % 3 {
                        0 => bdd.and(lit, a),
                        1 => bdd.or(lit, a),
                        _ => bdd.xor(lit, a),
                    },
                });
                if i % 16 == 1 {
                    handles.push(acc.unwrap());
                }
            }
            let top = acc.unwrap_or(Term::TOP);
            let sel = bdd.variable(Var(0));
            let g = bdd.and(sel, top);
            let g2 = bdd.or(sel, top);
            handles.extend([top, g, g2]);
            if *reimport {
                let js = serde_json::to_string(&bdd).map_err(|e| e.to_string())?;
                let mut b: Bdd = serde_json::from_str(&js).map_err(|e| e.to_string())?;
                b.fix_import();
                bdd = b;
            }
            let clamp = |x: u128| -> u64 { x.min(usize::MAX as u128) as u64 };
            let mut memo = std::collections::HashMap::new();
            let mut out = Vec::new();
            for h in &handles {
                let want = deep_counts(&bdd, *h, &mut memo);
                let order: &[bool] = if *memo_first { &[true, false] } else { &[false, true] };
                for &memoised in order {
                    if memoised && !memo_models_valid {
                        continue;
                    }
                    let m = bdd.models(*h, memoised);
                    let fits = want.0 <= usize::MAX as u128 && want.1 <= usize::MAX as u128;
                    if *fits_only && !fits {
                        continue;
                    }
                    if (m.models as u64, m.cmodels as u64) != (clamp(want.0), clamp(want.1)) {
                        return Err(format!(
                            "models({}, memoised={memoised}) = ({}, {}) for a diagram of depth {} with {} models and {} counter-models (counts beyond a machine word saturate at {})",
                            h.value(), m.models, m.cmodels, want.2, want.0, want.1, usize::MAX
                        ));
                    }
                }
                for memoised in [false, true] {
                    let p = bdd.paths(*h, memoised);
                    if *fits_only && !(want.3 <= usize::MAX as u128 && want.4 <= usize::MAX as u128) {
                        continue;
                    }
                    if (p.models as u64, p.cmodels as u64) != (clamp(want.3), clamp(want.4)) {
                        return Err(format!("paths({}, memoised={memoised}) = ({}, {}) but the diagram has {} paths to top and {} to bottom", h.value(), p.models, p.cmodels, want.3, want.4));
                    }
                }
                let d = bdd.max_depth(*h);
                if d != want.2 as usize {
                    return Err(format!("max_depth({}) = {d}, longest path has {} edges", h.value(), want.2));
                }
                let mut deps: Vec<usize> = bdd.var_dependencies(*h).into_iter().map(|v| v.value()).collect();
                deps.sort();
                out.push(json!({"models": [clamp(want.0).to_string(), clamp(want.1).to_string()], "paths": [clamp(want.3).to_string(), clamp(want.4).to_string()], "depth": d, "deps": deps}));
            }
            let export = serde_json::to_string(&bdd).map_err(|e| e.to_string())?;
            Ok(json!({"handles": out, "nodes": bdd.nodes.len(), "export": export}))
        }
        ProbeCase::Adf { acs, labels, layout, sort, backend, calls: list, import, .. } => {
            let (text, _) = gen::render(acs, labels, layout);
            let r = sut::with_parser(&text, *sort, |p| -> Result<Value, String> {
                let names: Vec<String> = p.var_container().names().read().unwrap().clone();
                let perm = sut::perm_from_names(&names, labels)?;
                let mut a: Adf = match backend % 4 {
                    0 => Adf::from_parser(p),
                    1 => BdAdf::from_parser(p).hybrid_step(),
                    2 => BdAdf::from_parser(p).hybrid_step_opt(false),
                    _ => Adf::from_biodivine(&BdAdf::from_parser(p)),
                };
                if let Some(state) = import {
                    let mut b: Adf = serde_json::from_str(state).map_err(|e| format!("state exported by another build does not load: {e}"))?;
                    b.fix_import();
                    a = b;
                }
                let mut out = Vec::new();
                for (i, call) in list.iter().enumerate() {
                    let raw = calls::exec(&mut a, call).map_err(|e| format!("call {i} {call:?}: {e}"))?;
                    let abs = calls::abstract_raw(&raw, false);
                    if let (Some(exp), Abs::Interps(got)) = (calls::expected_logical(acs, call), &abs) {
                        let mut got_l: Vec<_> = got.iter().map(|g| sut::to_logical(&perm, g)).collect::<Result<_, _>>()?;
                        got_l.sort();
                        if got_l != exp {
                            return Err(format!(
                                "call {i} {call:?}: {} but the definition gives {}",
                                crate::oracle::show_set(&got_l),
                                crate::oracle::show_set(&exp)
                            ));
                        }
                    }
                    out.push(match abs {
                        Abs::Interps(v) => json!(v.iter().map(|i| crate::oracle::show(i)).collect::<Vec<_>>()),
                        Abs::Numbers(n) => json!(n.iter().map(|r| r.iter().map(|x| x.to_string()).collect::<Vec<_>>()).collect::<Vec<_>>()),
                        Abs::Tables(t) => json!(t.iter().map(|t| hex(t)).collect::<Vec<_>>()),
                    });
                }
                let export = serde_json::to_string(&a).map_err(|e| e.to_string())?;
                Ok(json!({"answers": out, "names": names, "export": export}))
            });
            match r {
                Err(e) => Err(format!("well-formed input rejected: {e}")),
                Ok(x) => x,
            }
        }
    }
}

