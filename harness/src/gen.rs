//! proptest strategies: formulas, ADFs, labels, layouts.

use crate::formula::F;
use proptest::collection::vec;
use proptest::prelude::*;
use proptest::strategy::BoxedStrategy;
use serde::{Deserialize, Serialize};

/// monotone index map (keeps shrinking monotone): idx in 0..len from a u16
pub fn pick(i: u16, len: usize) -> usize {
    debug_assert!(len > 0);
    ((i as usize) * len) >> 16
}

pub fn atom(n: usize) -> BoxedStrategy<F> {
    (0..n).prop_map(F::Atom).boxed()
}

/// Random syntax over statements 0..n with all connectives.
pub fn formula(n: usize, depth: u32) -> BoxedStrategy<F> {
    formula_sized(n, depth, 24)
}

/// Random syntax with an explicit desired size.
pub fn formula_sized(n: usize, depth: u32, size: u32) -> BoxedStrategy<F> {
    let leaf = prop_oneof![
        10 => atom(n),
        1 => Just(F::Top),
        1 => Just(F::Bot),
    ];
    leaf.prop_recursive(depth, size, 2, |inner| {
        prop_oneof![
            3 => inner.clone().prop_map(F::not),
            3 => (inner.clone(), inner.clone()).prop_map(|(a, b)| F::and(a, b)),
            3 => (inner.clone(), inner.clone()).prop_map(|(a, b)| F::or(a, b)),
            2 => (inner.clone(), inner.clone()).prop_map(|(a, b)| F::imp(a, b)),
            2 => (inner.clone(), inner.clone()).prop_map(|(a, b)| F::iff(a, b)),
            2 => (inner.clone(), inner).prop_map(|(a, b)| F::xor(a, b)),
        ]
    })
    .boxed()
}

/// A random Boolean function over a random support of size <= kmax, rendered as DNF/CNF/ITE.
pub fn table_function(n: usize, kmax: usize) -> BoxedStrategy<F> {
    let kmax = kmax.min(n).min(5);
    (
        proptest::sample::subsequence((0..n).collect::<Vec<_>>(), 0..=kmax),
        any::<u32>(),
        0u8..3,
    )
        .prop_map(|(sup, table, style)| {
            let rows = 1u32 << sup.len();
            let mask = if rows >= 32 { u32::MAX } else { (1u32 << rows) - 1 };
            F::from_table(&sup, (table & mask) as u64, style)
        })
        .boxed()
}

/// One acceptance condition for statement `s` of an n-statement ADF (mixture).
pub fn ac_formula(n: usize, s: usize) -> BoxedStrategy<F> {
    let lit = (0..n, any::<bool>()).prop_map(|(i, neg)| {
        if neg {
            F::not(F::Atom(i))
        } else {
            F::Atom(i)
        }
    });
    let selfish = prop_oneof![
        Just(F::Atom(s)),
        Just(F::not(F::Atom(s))),
        (0..n).prop_map(move |o| F::and(F::Atom(s), F::not(F::Atom(o)))),
        (0..n).prop_map(move |o| F::or(F::Atom(s), F::Atom(o))),
    ];
    prop_oneof![
        6 => formula(n, 4),
        5 => table_function(n, 4),
        2 => lit,
        2 => selfish,
        1 => Just(F::Top),
        1 => Just(F::Bot),
    ]
    .boxed()
}

/// Propagation-rich ADF: a chain (or tree) of dependencies with a constant at its start so that
/// grounding needs several rounds; remaining statements are random.
fn chain_adf(n: usize) -> BoxedStrategy<Vec<F>> {
    (
        Just((0..n).collect::<Vec<usize>>()).prop_shuffle(),
        vec((any::<bool>(), any::<bool>(), 0u8..4, any::<u16>()), n),
        (1..=n),
        vec(formula(n, 3), n),
    )
        .prop_map(move |(order, flags, chain_len, filler)| {
            let mut acs = filler;
            // order[0] is a constant, order[i] depends on order[i-1]
            for (pos, &s) in order.iter().enumerate().take(chain_len) {
                let (neg, val, shape, other) = flags[pos];
                acs[s] = if pos == 0 {
                    if val {
                        F::Top
                    } else {
                        F::Bot
                    }
                } else {
                    let prev = F::Atom(order[pos - 1]);
                    let prev = if neg { F::not(prev) } else { prev };
                    let o = F::Atom(order[pick(other, pos)]);
                    match shape {
                        0 => prev,
                        1 => F::and(prev, o),
                        2 => F::or(prev, F::and(o.clone(), F::not(o))),
                        _ => F::imp(F::not(prev), F::Bot),
                    }
                };
            }
            acs
        })
        .boxed()
}

/// Cycle-rich ADF: self-supporting and mutually attacking statements (many complete / stable
/// models).
fn cycle_adf(n: usize) -> BoxedStrategy<Vec<F>> {
    vec((0u8..6, any::<u16>(), any::<u16>()), n)
        .prop_map(move |spec| {
            spec.iter()
                .enumerate()
                .map(|(s, &(shape, a, b))| {
                    let x = F::Atom(pick(a, n));
                    let y = F::Atom(pick(b, n));
                    match shape {
                        0 => F::Atom(s),
                        1 => F::not(x),
                        2 => F::and(F::Atom(s), F::not(x)),
                        3 => F::or(F::not(x), y),
                        4 => F::and(F::not(x), F::not(y)),
                        _ => F::iff(x, y),
                    }
                })
                .collect()
        })
        .boxed()
}

/// ADF with n statements (mixture of all profiles).
pub fn adf_n(n: usize) -> BoxedStrategy<Vec<F>> {
    let random: BoxedStrategy<Vec<F>> = (0..n)
        .map(|s| ac_formula(n, s))
        .collect::<Vec<_>>()
        .boxed();
    // several statements share the *same* acceptance condition (identical diagrams in one list)
    let random2: BoxedStrategy<Vec<F>> = (0..n).map(|s| ac_formula(n, s)).collect::<Vec<_>>().boxed();
    let shared = (random2, proptest::collection::vec((any::<u16>(), any::<u16>()), 1..=3)).prop_map(move |(mut acs, copies)| {
        for (from, to) in copies {
            let (f, t) = (pick(from, n), pick(to, n));
            acs[t] = acs[f].clone();
        }
        acs
    });
    // symmetric: independent pairs attacking each other (many models, many heuristic ties), the rest random
    let random3: BoxedStrategy<Vec<F>> = (0..n).map(|s| ac_formula(n, s)).collect::<Vec<_>>().boxed();
    let symmetric = (random3, Just((0..n).collect::<Vec<usize>>()).prop_shuffle(), 1..=(n / 2).max(1)).prop_map(move |(mut acs, order, pairs)| {
        for p in 0..pairs.min(n / 2) {
            let (a, b) = (order[2 * p], order[2 * p + 1]);
            acs[a] = F::not(F::Atom(b));
            acs[b] = F::not(F::Atom(a));
        }
        acs
    });
    prop_oneof![
        6 => random,
        2 => chain_adf(n),
        3 => cycle_adf(n),
        2 => shared,
        2 => symmetric,
    ]
    .boxed()
}

/// Small ADFs for brute-force oracles: n in lo..=hi, weighted to the middle.
pub fn adf_small(lo: usize, hi: usize) -> BoxedStrategy<Vec<F>> {
    (lo..=hi, lo..=hi)
        .prop_map(|(a, b)| (a + b + 1) / 2)
        .prop_flat_map(adf_n)
        .boxed()
}

/// Large ADF with bounded supports: each formula only mentions statements of a window of
/// `sup` statements chosen per formula.
pub fn adf_large(nlo: usize, nhi: usize, sup: usize, depth: u32) -> BoxedStrategy<Vec<F>> {
    (nlo..=nhi)
        .prop_flat_map(move |n| {
            vec(
                (
                    proptest::sample::subsequence((0..n).collect::<Vec<_>>(), 1..=sup.min(n)),
                    prop_oneof![4 => formula(sup.min(n), depth), 1 => Just(F::Top), 1 => Just(F::Bot),
                                2 => formula(2, 2)],
                ),
                n,
            )
        })
        .prop_map(|spec| {
            spec.into_iter()
                .map(|(window, f)| f.map_atoms(&|i| window[i % window.len()]))
                .collect()
        })
        .boxed()
}

/// ADFs with MANY two-valued models (tens to hundreds) of which only some are stable: n statements made of small
/// components (self-supporters, mutual attacks, exclusive triangles, facts) plus links to other statements; every
/// acceptance condition mentions at most 3 statements.
pub fn adf_many_models(nlo: usize, nhi: usize) -> BoxedStrategy<Vec<F>> {
    (nlo..=nhi)
        .prop_flat_map(|n| (Just(n), vec((0u8..12, any::<u16>(), any::<u16>()), n), Just((0..n).collect::<Vec<usize>>()).prop_shuffle()))
        .prop_map(|(n, spec, order)| {
            let mut acs: Vec<F> = vec![F::Top; n];
            let mut i = 0;
            let mut self_supporters = 0;
            while i < n {
                let (kind, x, y) = spec[i];
                let s = order[i];
                let other = |sel: u16| order[pick(sel, n)];
                match kind {
                    // mutual attack (2 models per pair, both stable)
                    0..=3 if i + 1 < n => {
                        let t = order[i + 1];
                        acs[s] = F::not(F::Atom(t));
                        acs[t] = F::not(F::Atom(s));
                        i += 2;
                        continue;
                    }
                    // exclusive triangle (3 models, all stable)
                    4 | 5 if i + 2 < n => {
                        let (t, u) = (order[i + 1], order[i + 2]);
                        acs[s] = F::and(F::not(F::Atom(t)), F::not(F::Atom(u)));
                        acs[t] = F::and(F::not(F::Atom(s)), F::not(F::Atom(u)));
                        acs[u] = F::and(F::not(F::Atom(s)), F::not(F::Atom(t)));
                        i += 3;
                        continue;
                    }
                    // self-supporter (2 models, only `false` stable); at most 5 of them
                    6 | 7 if self_supporters < 5 => {
                        self_supporters += 1;
                        acs[s] = match x % 3 {
                            0 => F::Atom(s),
                            1 => F::or(F::Atom(s), F::not(F::Atom(other(y)))),
                            _ => F::and(F::Atom(s), F::or(F::Atom(other(y)), F::not(F::Atom(other(x))))),
                        };
                    }
                    8 => acs[s] = F::not(F::Atom(other(x))),
                    9 => acs[s] = F::or(F::Atom(other(x)), F::not(F::Atom(other(y)))),
                    10 => acs[s] = if x & 1 == 1 { F::Top } else { F::Bot },
                    _ => acs[s] = F::and(F::not(F::Atom(other(x))), F::not(F::Atom(other(y)))),
                }
                i += 1;
            }
            acs
        })
        .boxed()
}


/// Wide ADFs (dozens to hundreds of statements) with a small cyclic core: `k` core statements with arbitrary conditions over
/// the core, a long part decided by grounding (facts and statements computed from earlier decided ones), and up to `hang`
/// statements computed from the core (undecided in the grounded interpretation). `place` moves the core to the front, the
/// end or the middle of the declaration order. Exact oracle: `oracle::stable_sparse`.
pub fn adf_stratified(nlo: usize, nhi: usize, hang: usize) -> BoxedStrategy<Vec<F>> {
    (nlo..=nhi, 2usize..=4, 0u8..3)
        .prop_flat_map(move |(n, k, place)| {
            (
                Just((n, k, place)),
                vec(prop_oneof![3 => formula(k, 2), 1 => formula(2, 1)], k),
                vec((0u8..8, any::<u16>(), any::<u16>()), n - k),
                0..=hang,
            )
        })
        .prop_map(|((n, k, place), core, spec, hang)| {
            let mut acs: Vec<F> = core;
            // lineage[i]: does statement i (transitively) depend on the core?
            let mut lineage = vec![true; k];
            let mut hung = 0usize;
            for (idx, (kind, a, b)) in spec.into_iter().enumerate() {
                let i = k + idx;
                // the statements after the core: every (n / (hang+1))-th one hangs off the core until `hang` is used up
                let off_core = hung < hang && idx % ((n - k) / (hang + 1)).max(1) == 0;
                // dependencies stay local (the last few statements of the same lineage): the single-formula rewritings
                // conjoin all conditions in one diagram, whose size is exponential in the number of dependencies that
                // cross a cut of the variable order
                let mut pool: Vec<usize> = (0..i).filter(|&j| lineage[j] == off_core).collect();
                if pool.len() > 5 {
                    pool.drain(..pool.len() - 5);
                }
                let f = if pool.is_empty() {
                    if a % 2 == 0 { F::Top } else { F::Bot }
                } else {
                    let x = F::Atom(pool[pick(a, pool.len())]);
                    let y = F::Atom(pool[pick(b, pool.len())]);
                    match kind {
                        0 if !off_core => F::Top,
                        1 if !off_core => F::Bot,
                        0 | 1 | 2 => x,
                        3 => F::not(x),
                        4 => F::and(x, y),
                        5 => F::or(x, F::not(y)),
                        6 => F::xor(x, y),
                        _ => F::imp(x, y),
                    }
                };
                let l = off_core && !pool.is_empty();
                if l {
                    hung += 1;
                }
                lineage.push(l);
                acs.push(f);
            }
            // move the core: new index of statement i
            let perm: Vec<usize> = match place {
                0 => (0..n).collect(),
                1 => (0..n).map(|i| n - 1 - i).collect(),
                _ => (0..n).map(|i| (i + n / 2) % n).collect(),
            };
            let mut out = vec![F::Top; n];
            for (i, f) in acs.into_iter().enumerate() {
                out[perm[i]] = f.map_atoms(&|a| perm[a]);
            }
            out
        })
        .boxed()
}

/// Wide ADFs for the nogood learner: a small cyclic core and LONG chains hanging off it (most statements stay undecided
/// in the grounded interpretation, every two-valued model is determined by the core).
pub fn adf_core_chains(nlo: usize, nhi: usize) -> BoxedStrategy<Vec<F>> {
    (nlo..=nhi, 2usize..=3, 0u8..3)
        .prop_flat_map(|(n, k, place)| (Just((n, k, place)), vec(prop_oneof![2 => formula(k, 2), 1 => formula(2, 1)], k), vec((0u8..6, any::<u16>()), n - k), 0u8..6))
        .prop_map(|((n, k, place), core, mut spec, parity)| {
            // a third of the cases: the last statement is the parity (or a conjunction / disjunction) of ALL others, each
            // occurring once: a condition with 2^(n-1) paths whose value is only known when everything is decided
            let wide_last = parity < 3 && n - k >= 2;
            if wide_last {
                spec.pop();
            }
            let mut acs: Vec<F> = core;
            for (idx, (kind, a)) in spec.into_iter().enumerate() {
                let i = k + idx;
                let prev = F::Atom(i - 1);
                let other = F::Atom(pick(a, i));
                acs.push(match kind {
                    0 | 1 | 2 => prev,
                    3 => F::not(prev),
                    4 => F::and(prev.clone(), F::or(other.clone(), F::not(other))),
                    _ => F::or(prev.clone(), F::and(other.clone(), F::not(other))),
                });
            }
            if wide_last {
                let mut acc = F::Atom(0);
                for j in 1..n - 1 {
                    acc = match parity {
                        0 => F::xor(F::Atom(j), acc),
                        1 => F::iff(acc, F::Atom(j)),
                        _ => if j % 2 == 0 { F::xor(acc, F::Atom(j)) } else { F::iff(F::Atom(j), acc) },
                    };
                }
                acs.push(acc);
            }
            let perm: Vec<usize> = match place {
                0 => (0..n).collect(),
                1 => (0..n).map(|i| n - 1 - i).collect(),
                _ => (0..n).map(|i| (i + n / 2) % n).collect(),
            };
            let mut out = vec![F::Top; n];
            for (i, f) in acs.into_iter().enumerate() {
                out[perm[i]] = f.map_atoms(&|a| perm[a]);
            }
            out
        })
        .boxed()
}

// ------------------------------------------------------------------------------------------
// labels

#[derive(Clone, Copy, Debug, PartialEq, Eq, Serialize, Deserialize)]
pub enum LabelClass {
    /// plain alphanumeric labels
    Plain,
    /// plain + numeric + keyword-like (still alphanumeric)
    Alnum,
    /// Alnum + quoted labels (blanks, punctuation, unicode) that biodivine accepts
    Quoted,
    /// Quoted + labels with characters biodivine's expression syntax reserves (K1 class)
    Hostile,
}

const PLAIN: &[&str] = &[
    "a", "b", "c0", "d", "e", "x1", "y", "z", "p", "q", "stmt", "A", "B7", "k9", "m", "w",
];
const NUMERIC: &[&str] = &["0", "1", "2", "10", "02", "007", "9", "11", "100", "20"];
const KEYWORDISH: &[&str] = &[
    "and", "or", "neg", "imp", "iff", "xor", "c", "s", "ac", "andy", "or1", "negx", "impl", "iffy",
    "xorx", "cv", "cf", "v", "f", "sa", "acx", "true", "false", "TOP", "BOT", "T", "F", "u",
];
const QUOTED: &[&str] = &[
    "x y", " sp ", "q.r,s", "ünï", "a_b", "", "näme one", "semi;colon", "tab\there", "1 2",
    "and,or", "s.", "ac.", "#1", "日本", "a-b", "a+b", "neg ", "c v", "dot.dot", "[br]", "{cb}",
    "new\nline", "per%cent", "a'b", "a/b", "a\\b", "a*b", "a~b", "a@b", "a$b",
];
const HOSTILE: &[&str] = &[
    "a(b", "a)b", "a&b", "a|b", "a!b", "a^b", "a=b", "a<b", "a>b", "a?b", "a:b", "(x)", "s(a)",
    "and(a,b)", "a => b", "!n",
];

/// n distinct labels; returns (label, needs_quotes)
pub fn labels(n: usize, class: LabelClass) -> BoxedStrategy<Vec<String>> {
    let mut pool: Vec<String> = Vec::new();
    pool.extend(PLAIN.iter().map(|s| s.to_string()));
    if class != LabelClass::Plain {
        pool.extend(NUMERIC.iter().map(|s| s.to_string()));
        pool.extend(KEYWORDISH.iter().map(|s| s.to_string()));
    }
    if matches!(class, LabelClass::Quoted | LabelClass::Hostile) {
        // the empty label is excluded: `""` is accepted by the parser but no documented label
        pool.extend(QUOTED.iter().filter(|s| !s.is_empty()).map(|s| s.to_string()));
    }
    if class == LabelClass::Hostile {
        pool.extend(HOSTILE.iter().map(|s| s.to_string()));
    }
    // generated suffix labels guarantee enough distinct names for large n
    let extra: Vec<String> = (0..n).map(|i| format!("g{i}")).collect();
    pool.extend(extra.clone());
    let len = pool.len();
    // choose n distinct indices: shuffle a selection mask via subsequence + shuffle
    let general = proptest::sample::subsequence(pool, n..=n.min(len)).prop_shuffle();
    // generated spellings (not from the pools): short and very long alphanumeric labels, quoted labels over
    // printable ASCII (without the double quote; the biodivine-reserved characters only in class Hostile)
    let general = {
        let quoted_ok = matches!(class, LabelClass::Quoted | LabelClass::Hostile);
        let hostile_ok = class == LabelClass::Hostile;
        let chars: Vec<char> = (' '..='~')
            .filter(|c| *c != '"')
            .filter(|c| hostile_ok || !"!&|^=<>()?:".contains(*c))
            .chain("äß€λ".chars())
            .collect();
        let alnum = "[A-Za-z0-9]{1,14}".prop_map(|s| s).boxed();
        let long = "[a-z0-9]{40,260}".prop_map(|s| s).boxed();
        let quoted = vec(proptest::sample::select(chars), 1..=16).prop_map(|v| v.into_iter().collect::<String>()).boxed();
        let one = if class == LabelClass::Plain {
            alnum.clone()
        } else if quoted_ok {
            prop_oneof![3 => alnum.clone(), 1 => long.clone(), 3 => quoted].boxed()
        } else {
            prop_oneof![3 => alnum.clone(), 1 => long.clone()].boxed()
        };
        (general, proptest::bool::weighted(0.2), vec((any::<bool>(), one), n)).prop_map(|(mut ls, on, repl)| {
            if on {
                for (i, (take, l)) in repl.into_iter().enumerate() {
                    if take && !ls.contains(&l) {
                        ls[i] = l;
                    }
                }
            }
            ls
        })
    };
    if matches!(class, LabelClass::Quoted | LabelClass::Hostile) && n <= 9 {
        // confusable label sets: labels that look like pieces of formula syntax / of each other when
        // printed next to each other (e.g. and("a,b",c) vs and(a,"b,c"))
        let mut conf: Vec<String> = CONFUSABLE.iter().map(|s| s.to_string()).collect();
        if class == LabelClass::Hostile {
            conf.extend(CONFUSABLE_HOSTILE.iter().map(|s| s.to_string()));
        }
        conf.extend(extra);
        let cl = conf.len();
        let confusable = proptest::sample::subsequence(conf, n..=n.min(cl)).prop_shuffle();
        prop_oneof![6 => general, 1 => confusable].boxed()
    } else {
        general.boxed()
    }
}

const CONFUSABLE: &[&str] = &["a", "b", "c", "a,b", "b,c", "a,b,c", "c,a", "a, b", "b ,c"];
const CONFUSABLE_HOSTILE: &[&str] = &["not(a)", "and(a,b)", "or(b,c)", "not(b)", "neg(a)", "c(v)", "Const(T)"];

pub fn needs_quotes(l: &str) -> bool {
    l.is_empty() || !l.chars().all(|c| c.is_ascii_alphanumeric())
}

pub fn is_bd_hostile(l: &str) -> bool {
    l.chars().any(|c| "!&|^=<>()?:".contains(c)) || l.contains("=>")
}

pub fn quote(l: &str) -> String {
    if needs_quotes(l) {
        format!("\"{l}\"")
    } else {
        l.to_string()
    }
}

// ------------------------------------------------------------------------------------------
// layout

// entries 0..7 are what ordinary layouts draw from (tape values 0..7); the long runs behind them are only reached by
// the tapes of the "big text" parts (values 8, 9)
pub const WS_AFTER_DOT: &[&str] = &["", "", " ", "\n", "\t", "\r\n", "  \n ", "\n\n", LONG_BLANKS, LONG_NEWLINES];
pub const WS_COMMA: &[&str] = &["", "", "", " ", "\n", "\t", "  ", "", LONG_BLANKS, LONG_NEWLINES];
pub const LONG_BLANKS: &str = "                                                                                                                                                                                                                                                                                                                                                                                                                                                                                                                                ";
pub const LONG_NEWLINES: &str = "\n\n\n\n\n\n\n\n\n\n\n\n\n\n\n\n\n\n\n\n\n\n\n\n\n\n\n\n\n\n\n\n\n\n\n\n\n\n\n\n\r\n\t\n\n\n\n\n\n\n\n\n\n\n\n\n\n\n\n\n\n\n\n\n\n\n\n\n\n\n\n\n\n\n\n\n\n\n\n\n\n\n\n\n\n\n\n\n";

#[derive(Clone, Debug, Serialize, Deserialize, PartialEq, Eq, Hash)]
pub struct Layout {
    /// sort keys of the 2n facts (s facts first, then ac facts); stable sort gives the text order
    pub keys: Vec<u16>,
    /// whitespace choice tape
    pub ws: Vec<u8>,
}

impl Layout {
    pub fn plain(n: usize) -> Layout {
        Layout {
            keys: (0..2 * n as u16).collect(),
            ws: vec![0],
        }
    }
}

pub fn layout(n: usize) -> BoxedStrategy<Layout> {
    prop_oneof![
        2 => Just(Layout::plain(n)),
        // all s facts (shuffled) then all ac facts (shuffled)
        2 => (vec(0u16..1000, n), vec(1000u16..2000, n), vec(0u8..8, 1..6)).prop_map(|(a, b, ws)| {
            Layout { keys: a.into_iter().chain(b).collect(), ws }
        }),
        // arbitrary interleaving, ac before s allowed
        3 => (vec(any::<u16>(), 2 * n), vec(0u8..8, 1..8)).prop_map(|(keys, ws)| Layout { keys, ws }),
    ]
    .boxed()
}

/// Render an ADF as input text. Returns (text, declaration order = library variable order as a
/// list of logical statement indices).
pub fn render(acs: &[F], labels: &[String], layout: &Layout) -> (String, Vec<usize>) {
    let (t, d, _) = render_full(acs, labels, layout);
    (t, d)
}

/// as `render`, additionally the order of the ac facts in the text
pub fn render_full(acs: &[F], labels: &[String], layout: &Layout) -> (String, Vec<usize>, Vec<usize>) {
    let n = acs.len();
    assert_eq!(labels.len(), n);
    let mut facts: Vec<(u16, usize, bool)> = Vec::new(); // (key, stmt, is_ac)
    for i in 0..n {
        facts.push((layout.keys.get(i).copied().unwrap_or(i as u16), i, false));
    }
    for i in 0..n {
        facts.push((
            layout.keys.get(n + i).copied().unwrap_or((n + i) as u16),
            i,
            true,
        ));
    }
    facts.sort_by_key(|f| f.0);
    let mut wpos = 0usize;
    let ws = &layout.ws;
    let mut next_ws = |table: &'static [&'static str]| -> &'static str {
        let c = if ws.is_empty() { 0 } else { ws[wpos % ws.len()] } as usize;
        wpos += 1;
        table[c % table.len()]
    };
    let lab = |i: usize| quote(&labels[i]);
    let mut text = String::new();
    let mut decl = Vec::new();
    let mut ac_order = Vec::new();
    for (_, s, is_ac) in facts {
        if is_ac {
            ac_order.push(s);
            let w1 = next_ws(WS_COMMA);
            let w2 = next_ws(WS_COMMA);
            let body = acs[s].render(&lab, &mut || next_ws(WS_COMMA));
            text.push_str(&format!("ac({}{w1},{w2}{body}).", lab(s)));
        } else {
            decl.push(s);
            text.push_str(&format!("s({}).", lab(s)));
        }
        text.push_str(next_ws(WS_AFTER_DOT));
    }
    (text, decl, ac_order)
}

/// A fully specified ADF input case.
#[derive(Clone, Debug, Serialize, Deserialize)]
pub struct AdfCase {
    pub acs: Vec<F>,
    pub labels: Vec<String>,
    pub layout: Layout,
}

impl AdfCase {
    pub fn n(&self) -> usize {
        self.acs.len()
    }
    pub fn text(&self) -> String {
        render(&self.acs, &self.labels, &self.layout).0
    }
    pub fn simple(acs: Vec<F>) -> AdfCase {
        let n = acs.len();
        AdfCase {
            labels: (0..n).map(|i| format!("s{i}")).collect(),
            layout: Layout::plain(n),
            acs,
        }
    }
}

pub fn adf_case(adfs: BoxedStrategy<Vec<F>>, class: LabelClass) -> BoxedStrategy<AdfCase> {
    adfs.prop_flat_map(move |acs| {
        let n = acs.len();
        (Just(acs), labels(n, class), layout(n))
    })
    .prop_map(|(mut acs, labels, layout)| {
        // label sets in which two different pairs of labels read the same when written next to each other
        // ("a,b" + c  vs  a + "b,c"): half of these cases get two conditions built from exactly such pairs
        let n = acs.len();
        let h = layout.keys.iter().fold(n as u64, |a, k| a.wrapping_mul(31).wrapping_add(*k as u64));
        if (4..=9).contains(&n) && h % 2 == 0 {
            let mut found = None;
            'search: for i1 in 0..n {
                for j1 in 0..n {
                    for i2 in 0..n {
                        for j2 in 0..n {
                            if (i1, j1) != (i2, j2) && i1 != j1 && i2 != j2 && format!("{},{}", labels[i1], labels[j1]) == format!("{},{}", labels[i2], labels[j2]) {
                                found = Some((i1, j1, i2, j2));
                                break 'search;
                            }
                        }
                    }
                }
            }
            if let Some((i1, j1, i2, j2)) = found {
                let k1 = (h / 2) as usize % n;
                let k2 = (k1 + 1 + (h / 64) as usize % (n - 1)) % n;
                let op = |x: F, y: F| match (h / 1024) % 5 {
                    0 => F::and(x, y),
                    1 => F::or(x, y),
                    2 => F::imp(x, y),
                    3 => F::iff(x, y),
                    _ => F::xor(x, y),
                };
                acs[k1] = op(F::Atom(i1), F::Atom(j1));
                acs[k2] = op(F::Atom(i2), F::Atom(j2));
            }
        }
        AdfCase { acs, labels, layout }
    })
    .boxed()
}
