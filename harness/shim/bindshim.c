// LD_PRELOAD shim for the C16/C17 harness: the server binds the literal port 8080; this remaps
// that one bind() to the port given in VERIF_HTTP_PORT so that the real, unmodified server binary
// can run on a free port (several runs side by side). Nothing else is intercepted.
#define _GNU_SOURCE
#include <dlfcn.h>
#include <netinet/in.h>
#include <stdlib.h>
#include <string.h>
#include <sys/socket.h>

typedef int (*bind_fn)(int, const struct sockaddr *, socklen_t);

int bind(int fd, const struct sockaddr *addr, socklen_t len) {
    static bind_fn real = 0;
    if (!real) real = (bind_fn)dlsym(RTLD_NEXT, "bind");
    const char *p = getenv("VERIF_HTTP_PORT");
    if (p && addr && addr->sa_family == AF_INET && len >= sizeof(struct sockaddr_in)) {
        struct sockaddr_in a;
        memcpy(&a, addr, sizeof a);
        if (ntohs(a.sin_port) == 8080) {
            a.sin_port = htons((unsigned short)atoi(p));
            a.sin_addr.s_addr = htonl(INADDR_LOOPBACK);
            return real(fd, (struct sockaddr *)&a, sizeof a);
        }
    }
    return real(fd, addr, len);
}
