#![no_main]
use libfuzzer_sys::fuzz_target;

fuzz_target!(|data: &[u8]| {
    if let Err(m) = vcheck::fuzzentry::fz_bddops(data) {
        panic!("{}", m);
    }
});
